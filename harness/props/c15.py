"""C15 — order-sizing APIs.  Correspondence: (a) every stock sizing API call of real runs (shares / lots / value / percent /
target_value / target_percent / order / order_to) replayed on the Lean model from the same holding, closable quantity, cash,
value and price; futures single-request APIs (buy/sell open/close, close_today); (b) direct calls of `_round_order_quantity`
and of the 10-digit Decimal quotient.  Monitors: whole lots or full liquidation, affordability and maximality of value
orders, sells within closable, targets within one lot, zero requests create nothing, futures leg order and sums."""
import random, re, os
from decimal import Decimal
import vlib, tstream, monitors, acct_sync, bundle as B
from vlib import f2b

LEVEL = "proof"
RULE = ("scripted calls with amounts positive/negative/zero/fractional/huge, prices and fees around k x lot x p + fee, lots 100 / 1 / STAR (200 minimum), odd-lot "
        "holdings after splits, limit vs market styles, exact-fit value orders (order_value(cash)); direct calls on 10^3-10^5 random (quantity, lot) and (cash, price) pairs; "
        "non-trivial = a call that creates an order or is cut by cash/closable/lot; distinct = by (api, side, cut class)")
TRUSTED = ["harness reads holding / closable / cash / last price at the call with public accessors; the created orders are those that reached the validators"]
ASSUMPTIONS = ["round_lot_spec is proved where the 10-significant-digit Decimal quotient is exact (integral share counts < 10^10); the rounding region is compared by direct calls only",
               "order_target_portfolio and auto_switch_order_value are monitored (ordering facts), not modelled"]

STOCK_APIS = ("order_shares", "order_lots", "order_value", "order_percent", "order_target_value", "order_target_percent", "order", "order_to")


def consts():
    txt = open(os.path.join(vlib.LEAN, "RQ", "GenR", "Consts.lean")).read()
    m = re.search(r"def stockCommissionRate : Option \w+ := some \(([0-9.]+)", txt)
    return float(m.group(1)) if m else 0.0008


def tax_rate_const():
    txt = open(os.path.join(vlib.LEAN, "RQ", "GenR", "Consts.lean")).read()
    m = re.search(r"def stockTaxRateDefault : Option \w+ := some \(([0-9.]+)", txt)
    return float(m.group(1)) if m else 0.0005


def otp_sync(ctx, corr_p, tr, ix, c, created, rate, mult, minc, lines, meta, rp):
    """order_target_portfolio: monitors on every call; correspondence when every current holding is a key of the target
    (holdings outside the target are sold at market before the account is read)"""
    targets, limits = c["args"]
    pb = c["pos_before"]
    acc = c["before"].get("STOCK")
    if acc is None:
        return
    held = {h["id"]: h["long"]["qty"] for h in acc["holdings"] if h["long"]["qty"]}
    closable = {oid: pb[oid]["closable"] for oid in pb if oid in ix.stock and "closable" in pb[oid]}
    ctx.stats["otp_calls"] += 1
    for o in created:
        s = ix.stock.get(o["book"])
        if s is None:
            continue
        ksh = s["board"] == "KSH"
        lot = 1 if ksh else int(s["lot"])
        q, h = o["qty"], held.get(o["book"], 0)
        if not o["is_buy"]:
            if q > h:
                ctx.witness("C15.3", {"kind": "sell_exceeds_holding", "api": "order_target_portfolio"},
                            "order_target_portfolio(%r) at %s: SELL order for %s shares of %s, holding %s" % (targets, c["when"], q, o["book"], h), rp)
            elif not ksh and q % lot != 0 and q != h:
                ctx.witness("C15.1", {"kind": "odd_lot_order", "api": "order_target_portfolio"}, "order_target_portfolio(%r): SELL %s of %s is neither whole lots nor the whole holding %s" % (targets, q, o["book"], h), rp)
        else:
            if q <= 0:
                ctx.witness("C15.5", {"kind": "non_positive_buy_quantity", "api": "order_target_portfolio"}, "order_target_portfolio(%r) at %s: BUY order with quantity %s for %s" % (targets, c["when"], q, o["book"]), rp)
            elif not ksh and q % lot != 0:
                ctx.witness("C15.1", {"kind": "odd_lot_order", "api": "order_target_portfolio"}, "order_target_portfolio(%r): BUY %s of %s is not whole lots of %s" % (targets, q, o["book"], lot), rp)
            if ksh and 0 < q < 200:
                ctx.witness("C15.1", {"kind": "star_market_below_minimum", "api": "order_target_portfolio"}, "order_target_portfolio(%r): STAR-market BUY of %s shares" % (targets, q), rp)
        if o["qty"] == 0:
            ctx.witness("C15.5", {"kind": "zero_quantity_order", "api": "order_target_portfolio"}, "order_target_portfolio(%r) created an order for 0 shares of %s" % (targets, o["book"]), rp)
    # sells come before buys
    sides = [o["is_buy"] for o in created if o["book"] in targets]
    if sides != sorted(sides):
        ctx.witness("C15", {"kind": "otp_buy_before_sell"}, "order_target_portfolio(%r): orders %s not in the order sells, then buys" % (targets, [(o["book"], o["is_buy"], o["qty"]) for o in created]), rp)
    ctx.nontrivial("order_target_portfolio", len(created), tuple(sorted(set(o["is_buy"] for o in created))), bool(limits))
    if any(oid not in targets for oid in held):
        ctx.stats["otp_calls_with_holdings_outside_target"] += 1
        return
    toks = []
    for oid, pc in targets.items():
        s = ix.stock.get(oid)
        p = pb.get(oid)
        if s is None or p is None or not (p["price"] == p["price"] and p["price"] > 0):
            ctx.stats["otp_calls_without_price"] += 1
            return
        lim = limits.get(oid)
        op = lim[0] if lim else p["price"]
        cp = lim[1] if lim else p["price"]
        ksh = int(s["board"] == "KSH")
        toks += [str(ksh), str(1 if ksh else int(s["lot"])), str(int(s["type"] == "CS")), f2b(float(pc)), f2b(p["price"]), f2b(op), f2b(cp), str(int(lim is None)), str(int(lim is None)), str(int(p["qty"]))]
    taxm = tr.cfg["cost"].get("tax_multiplier", 1)
    lines.append("SZOTP %s %s %s %s %s %s %s %d %s" % (f2b(acc["obs"]["total_value"]), f2b(acc["obs"]["cash"]), f2b(rate), f2b(mult), f2b(minc), f2b(tax_rate_const()), f2b(taxm),
                                                 len(targets), " ".join(toks)))
    order_ids = list(targets)
    impl = "NONE" if not created else " ".join("%d:%d:%d:%s" % (order_ids.index(o["book"]) if o["book"] in order_ids else -1, o["is_buy"], o["qty"], f2b(o["price"]) if o["is_limit"] else "-") for o in created)
    meta.append((corr_p, c, impl))


def sizing_sync(ctx, corr_s, corr_f, tr, ix, corr_p=None):
    rate = consts()
    cost = tr.cfg["cost"]
    mult, minc = cost.get("stock_commission_multiplier", 1), cost.get("cn_stock_min_commission", 5)
    lines, meta = [], []
    rp = monitors.replay_of(tr)
    for c in tr.calls:
        api, args = c["api"], c["args"]
        pb = c.get("pos_before") or {}
        if c["exc"] is not None or "error" in pb:
            continue
        lo, hi = c.get("val_range", (0, 0))
        created = []
        seen = set()
        for v in tr.rec.validations[lo:hi]:
            if v["order"]["id"] not in seen:
                seen.add(v["order"]["id"])
                created.append(v["order"])
        ctx.evaluations += 1
        if api in STOCK_APIS and args[0] in ix.stock:
            oid = args[0]
            s = ix.stock[oid]
            if oid not in pb:
                continue
            p = pb[oid]
            if "closable_indep" in p:
                if p["closable_indep"] != p["closable"]:
                    ctx.witness("C15.3", {"kind": "closable_miscounted"}, "%s%r at %s: the position reports closable %s; holding %s minus the unfilled part of the resting sales minus today's T+1 purchases is %s"
                                % (api, args, c["when"], p["closable"], p["qty"], p["closable_indep"]), rp)
                p = dict(p, closable=p["closable_indep"])
            auto = bool(tr.cfg["accounts_mod"].get("auto_switch_order_value"))
            ksh = int(s["board"] == "KSH")
            lot = 1 if ksh else int(s["lot"])
            limit = args[2] if len(args) > 2 else None
            price = limit if limit is not None else p["price"]
            if not (price == price and price > 0) or not (p["price"] == p["price"] and p["price"] > 0):
                continue
            acc = c["before"]["STOCK"]
            cash, tv = acc["obs"]["cash"], acc["obs"]["total_value"]
            impl = "NONE" if not created else "%d %d" % (created[0]["is_buy"], created[0]["qty"])
            if len(created) > 1:
                impl = "MULTI"
            cv = "%s %s %s" % (f2b(rate), f2b(mult), f2b(minc))
            if auto and api in ("order_shares", "order", "order_lots", "order_to"):
                # share-based APIs with auto_switch_order_value: an unaffordable BUY becomes "all remaining cash"
                amt = args[1] * (1 if ksh else lot) if api == "order_lots" else (args[1] - p["qty"] if api == "order_to" else args[1])
                line = "SZSHARESAUTO %d %d %s %d %d %s %s %s" % (ksh, lot, f2b(amt), p["qty"], p["closable"], f2b(price), f2b(cash), cv)
                # with the switch on a purchase is cut down to what the available cash pays for BEFORE it is created: the cash validator never has to refuse it
                if amt > 0 and any(v.get("validator") == "cash" and v.get("veto") for v in tr.rec.validations[lo:hi]):
                    ctx.witness("C15.2", {"kind": "auto_switch_left_unaffordable_order", "api": api}, "%s%r with auto_switch_order_value at %s (available cash %r, reserved %r): the order that was created was refused by the cash validator"
                                % (api, args, c["when"], cash, acc.get("frozen")), rp)
                if amt > 0 and created and not created[0]["is_buy"]:
                    ctx.witness("C15.1", {"kind": "buy_request_creates_sell", "api": api, "auto_switch": True}, "%s%r with auto_switch_order_value and available cash %r created a SELL order for %s shares"
                                % (api, args, cash, created[0]["qty"]), rp)
            elif api in ("order_shares", "order"):
                line = "SZSHARES %d %d %s %d" % (ksh, lot, f2b(args[1]), p["qty"])
            elif api == "order_lots":
                line = "SZLOTS %d %d %s %d" % (ksh, lot, f2b(args[1]), p["qty"])
            elif api == "order_to":
                line = "SZORDERTO %d %d %s %d" % (ksh, lot, f2b(args[1]), p["qty"])
            elif api == "order_value":
                line = "SZVALUE %d %d %s %s %s %d %d %s" % (ksh, lot, f2b(args[1]), f2b(price), f2b(cash), p["closable"], p["qty"], cv)
            elif api == "order_percent":
                line = "SZVALUE %d %d %s %s %s %d %d %s" % (ksh, lot, f2b(tv * args[1]), f2b(price), f2b(cash), p["closable"], p["qty"], cv)
            elif api == "order_target_value":
                line = "SZTARGET %d %d %s %s %s %s %d %d %s" % (ksh, lot, f2b(args[1]), f2b(p["market_value"]), f2b(price), f2b(cash), p["closable"], p["qty"], cv)
            else:
                line = "SZTARGET %d %d %s %s %s %s %d %d %s" % (ksh, lot, f2b(tv * args[1] if args[1] != 0 else 0.0), f2b(p["market_value"]), f2b(price), f2b(cash), p["closable"], p["qty"], cv)
            lines.append(line)
            meta.append((corr_s, c, impl))
            if not (auto and api in ("order_shares", "order", "order_lots", "order_to")):
                stock_monitor(ctx, rp, c, created, p, lot, ksh, price, cash, tv, rate, mult, minc)
            else:
                ctx.stats["auto_switch_calls"] += 1
        elif api in ("buy_open", "sell_open", "buy_close", "sell_close") and args[0] in ix.fut and args[0] in pb:
            oid = args[0]
            is_buy = api.startswith("buy")
            eff = "OPEN" if api.endswith("open") else ("CLOSE_TODAY" if args[3] else "CLOSE")
            side = "short" if (is_buy and eff != "OPEN") else "long"
            if not (pb[oid]["price"] == pb[oid]["price"] and pb[oid]["price"] > 0):
                continue
            pp = pb[oid][side]
            lines.append("SZFSUB %s %d %s %d %d %d" % (f2b(float(args[1])), is_buy, eff, pp["qty"], pp["old"], pp["today_closable"]))
            impl = "NONE" if not created else " ".join("%d:%s:%d" % (o["is_buy"], o["effect"], o["qty"]) for o in created)
            meta.append((corr_f, c, impl))
            for o in created:
                if o["qty"] == 0:
                    ctx.witness("C15.5", {"kind": "zero_quantity_order", "api": api}, "%s%r created an order for 0 lots (%s)" % (api, args, o["effect"]), rp)
        elif api in ("order", "order_to") and args[0] in ix.fut and args[0] in pb:
            future_monitor(ctx, rp, c, created, pb[args[0]], api == "order_to")
        elif api == "order_target_portfolio" and corr_p is not None:
            otp_sync(ctx, corr_p, tr, ix, c, created, rate, mult, minc, lines, meta, rp)
    if not lines or not ctx.driver_ok:
        return
    reps = vlib.ask_driver(lines)
    for (corr, c, impl), rep, line in zip(meta, reps, lines):
        ok = rep.strip() == impl
        corr.add(ok, {"api": c["api"], "args": c["args"], "position": c["pos_before"].get(c["args"][0]) if not isinstance(c["args"][0], dict) else {k: c["pos_before"].get(k) for k in c["args"][0]}, "cash": c["before"].get("STOCK", {}).get("obs", {}).get("cash"),
                      "impl": impl, "model": rep.strip(), "request": line[:200], "when": str(c["when"])})
        ctx.nontrivial(c["api"], impl != "NONE", impl.split()[0] if impl != "NONE" else None)


def fee_of(q, price, rate, mult, minc):
    return max(price * q * rate * mult, minc)


def stock_monitor(ctx, rp, c, created, p, lot, ksh, price, cash, tv, rate, mult, minc):
    api, args = c["api"], c["args"]
    if len(created) > 1:
        ctx.witness("C15", {"kind": "several_orders_from_one_stock_call", "api": api}, "%s%r created %d orders" % (api, args, len(created)), rp)
        return
    o = created[0] if created else None
    held, closable = p["qty"], p["closable"]
    if o is not None:
        q = o["qty"]
        if not ksh and q % lot != 0 and not (not o["is_buy"] and q == held):
            ctx.witness("C15.1", {"kind": "odd_lot_order", "api": api}, "%s%r: order for %s shares is neither whole lots of %s nor the whole holding %s" % (api, args, q, lot, held), rp)
        if ksh and q < 200 and not (not o["is_buy"] and q == held):
            ctx.witness("C15.1", {"kind": "star_market_below_minimum", "api": api}, "%s%r: STAR-market order for %s shares (< 200)" % (api, args, q), rp)
        if not o["is_buy"] and api in ("order_value", "order_percent", "order_target_value", "order_target_percent") and q > max(closable, 0) and q != held:
            ctx.witness("C15.3", {"kind": "sell_exceeds_closable", "api": api}, "%s%r: sells %s, closable %s (holding %s)" % (api, args, q, closable, held), rp)
    if api in ("order_shares", "order", "order_lots"):
        amt = args[1] * (lot if api == "order_lots" else 1)
        want_side = amt > 0
        if o is not None:
            exempt = (not want_side) and held == -amt
            want_q = abs(amt) if exempt else (0 if (ksh and abs(amt) < 200) else int(abs(amt) // lot * lot))
            if o["is_buy"] != want_side or o["qty"] != want_q:
                ctx.witness("C15.1", {"kind": "shares_quantity", "api": api}, "%s%r with holding %s: created %s %s, expected %s %s" % (api, args, held, "BUY" if o["is_buy"] else "SELL", o["qty"], "BUY" if want_side else "SELL", want_q), rp)
        elif abs(amt) >= lot and not (ksh and abs(amt) < 200) and c["exc"] is None and not c["orders"] and False:
            pass
    if api in ("order_value", "order_percent") and o is not None and o["is_buy"]:
        v = args[1] if api == "order_value" else tv * args[1]
        budget = min(v, cash)
        q = o["qty"]
        if q * price + fee_of(q, price, rate, mult, minc) > budget + 1e-6:
            ctx.witness("C15.2", {"kind": "value_order_over_budget", "api": api}, "%s%r: %s shares x %r + fee %r = %r exceeds min(value, cash) = %r" % (api, args, q, price, fee_of(q, price, rate, mult, minc), q * price + fee_of(q, price, rate, mult, minc), budget), rp)
        step = 1 if ksh else lot
        q2 = q + step
        if q2 * price + fee_of(q2, price, rate, mult, minc) <= budget - 1e-6 and q2 <= int(Decimal(budget) / Decimal(price)):
            ctx.witness("C15.2", {"kind": "value_order_not_maximal", "api": api}, "%s%r: created %s shares although %s are affordable within %r" % (api, args, q, q2, budget), rp)
    if api in ("order_value", "order_percent") and o is None and c["exc"] is None:
        v = args[1] if api == "order_value" else tv * args[1]
        budget = min(v, cash)
        step = 200 if ksh else lot
        if v > 0 and step * price + fee_of(step, price, rate, mult, minc) <= budget - 1e-6 and int(Decimal(budget) / Decimal(price)) >= step:
            ctx.witness("C15.2", {"kind": "value_order_missing", "api": api}, "%s%r created no order although %s shares are affordable within %r" % (api, args, step, budget), rp)
    if api in ("order_target_value", "order_target_percent"):
        target = args[1] if api == "order_target_value" else tv * args[1]
        if args[1] == 0 and o is not None and closable == held and o["qty"] != held:
            ctx.witness("C15.4", {"kind": "target_zero"}, "%s%r: target 0 sells %s of a fully closable holding of %s" % (api, args, o["qty"], held), rp)
        if args[1] != 0 and o is not None:
            delta = target - p["market_value"]
            if (delta > 0) != o["is_buy"]:
                ctx.witness("C15.4", {"kind": "target_wrong_side"}, "%s%r: holding value %r, target %r, created a %s order" % (api, args, p["market_value"], target, "BUY" if o["is_buy"] else "SELL"), rp)
            # within one lot of the target when neither cash nor closable binds
            q = o["qty"]
            step = 1 if ksh else lot
            if o["is_buy"] and delta <= cash and abs(delta) - q * price > (step + 1) * price + fee_of(q + step, price, rate, mult, minc) + 1e-6:
                ctx.witness("C15.4", {"kind": "target_not_within_one_lot"}, "%s%r: buys %s shares at %r for a gap of %r" % (api, args, q, price, delta), rp)
            if (not o["is_buy"]) and q < closable - step and abs(delta) - q * price > (step + 1) * price + 1e-6:
                ctx.witness("C15.4", {"kind": "target_not_within_one_lot"}, "%s%r: sells %s shares at %r for a gap of %r" % (api, args, q, price, delta), rp)
    if o is None and not c["orders"] and c["exc"] is None:
        # a request that creates no order changes no state
        for t in c["before"]:
            if acct_sync.diff_state(dict(c["before"][t]), dict(c["after"][t])):
                ctx.witness("C15.5", {"kind": "zero_request_changes_state", "api": api}, "%s%r created no order but changed the %s account" % (api, args, t), rp)
        if c["open_before"] != c["open_after"]:
            ctx.witness("C15.5", {"kind": "zero_request_changes_books", "api": api}, "%s%r created no order but changed the open orders" % (api, args), rp)


def future_monitor(ctx, rp, c, created, pp, target):
    api, args = c["api"], c["args"]
    q = args[1] - ((pp["long"]["qty"] - pp["short"]["qty"]) if target else 0)
    for o in created:
        if o["qty"] == 0:
            ctx.witness("C15.5", {"kind": "zero_quantity_order", "api": api}, "%s%r created an order for 0 lots (%s)" % (api, args, o["effect"]), rp)
    if not created:
        return
    rank = {"CLOSE": 0, "CLOSE_TODAY": 1, "OPEN": 2}
    effs = [rank[o["effect"]] for o in created]
    if effs != sorted(effs):
        ctx.witness("C15.6", {"kind": "leg_order", "api": api}, "%s%r: legs %s are not in the order close-yesterday, close-today, open" % (api, args, [o["effect"] for o in created]), rp)
    if any(o["is_buy"] != (q > 0) for o in created):
        ctx.witness("C15.6", {"kind": "leg_side", "api": api}, "%s%r: requested change %s, legs %s" % (api, args, q, [(o["is_buy"], o["effect"], o["qty"]) for o in created]), rp)
    if sum(o["qty"] for o in created) > abs(q):
        ctx.witness("C15.6", {"kind": "legs_exceed_request", "api": api}, "%s%r: legs add up to %s for a requested change of %s" % (api, args, sum(o["qty"] for o in created), q), rp)
    closing = pp["short"] if q > 0 else pp["long"]
    if 0 <= closing["old"] <= closing["qty"]:
        want = []
        rest = abs(q)
        if closing["old"] > 0:
            want.append(("CLOSE", min(rest, closing["old"])))
            rest -= closing["old"]
        today = closing["qty"] - closing["old"]
        if rest > 0 and today > 0:
            want.append(("CLOSE_TODAY", min(rest, today)))
            rest -= today
        if rest > 0:
            want.append(("OPEN", rest))
        want = [(e, int(x)) for e, x in want if int(x) != 0]        # every leg's lot count is truncated toward zero; an empty leg creates nothing
        got = [(o["effect"], o["qty"]) for o in created]
        # legs vetoed by validators or cut by resting orders may be missing; what IS created must be a sub-sequence with the same quantities
        it = iter(want)
        if not all(any(g == w for w in it) for g in got):
            ctx.witness("C15.6", {"kind": "leg_quantities", "api": api}, "%s%r on long %s / short %s: created legs %s, decomposition %s" % (api, args, pp["long"], pp["short"], got, want), rp)
    ctx.nontrivial(api, len(created), tuple(o["effect"] for o in created))


def direct(ctx, corr_r, corr_d):
    """`_round_order_quantity` and the 10-digit Decimal quotient on random inputs (real function vs model)"""
    from rqalpha.environment import Environment
    import runner
    rnd = random.Random(ctx.rnd.random())
    S = B.gen_market(rnd, ndays=4, warm=1, n_stocks=3, with_future=False, opts={"kinds": ["CS", "KSH", "ETF"], "p_delist": 0, "p_split": 0, "p_div": 0})
    def rename(st, new_id, **kw):
        for tab in ("fac", "div", "split", "sus"):
            if st["id"] in S[tab]:
                S[tab][new_id] = S[tab].pop(st["id"])
        st.update(id=new_id, **kw)
    rename(S["stocks"][0], "000011.XSHE", board="MainBoard", lot=100.0, type="CS")
    if len(S["stocks"]) > 1:
        rename(S["stocks"][1], "688012.XSHG", board="KSH", lot=1.0, type="CS")
    if len(S["stocks"]) > 2:
        rename(S["stocks"][2], "510013.XSHG", board="MainBoard", lot=100.0, type="ETF")
    out = []

    def init(context):
        import rqalpha.mod.rqalpha_mod_sys_accounts.api.api_stock as A
        env = Environment.get_instance()
        for s in S["stocks"][:2]:
            ins = env.data_proxy.instrument(s["id"])
            for _ in range(ctx.n(800, 30000)):
                k = rnd.random()
                if k < 0.3:
                    q = rnd.randrange(-100000, 100000)
                elif k < 0.6:
                    q = round(rnd.uniform(-5000, 5000), rnd.choice([0, 1, 2, 6]))
                elif k < 0.8:
                    q = rnd.choice([199, 200, 201, -199, -200, 99, 100, 101, 0, 99.99999999999, 100.00000000001, 1999.9999999999, 123456789012])
                else:
                    q = rnd.randrange(0, 10 ** rnd.randrange(1, 13))
                try:
                    r = A._round_order_quantity(ins, q)
                except Exception as ex:
                    r = "EXC"
                out.append(("R", s, q, r))
        for _ in range(ctx.n(1500, 60000)):
            a = rnd.choice([round(rnd.uniform(1, 1e6), 2), float(rnd.randrange(1, 10 ** 7)), rnd.uniform(1, 1e5)])
            b = round(rnd.uniform(0.5, 300), rnd.choice([2, 2, 3]))
            out.append(("D", a, b, int(Decimal(a) / Decimal(b))))
    res, exc = runner.run_real(S, dict(accounts={"stock": 1e6}), {"init": init})
    if exc is not None:
        raise RuntimeError("direct sizing calls failed: %r" % (exc,))
    lines = []
    for rec in out:
        if rec[0] == "R":
            _, s, q, r = rec
            ksh = int(s["board"] == "KSH")
            lines.append("SZSHARES %d %d %s %d" % (ksh, 1 if ksh else int(s["lot"]), f2b(q), 10 ** 15))      # holding that never equals the amount
        else:
            lines.append("DECQ %s %s" % (f2b(rec[1]), f2b(rec[2])))
    reps = vlib.ask_driver(lines) if ctx.driver_ok else []
    for rec, rep in zip(out, reps):
        ctx.evaluations += 1
        if rec[0] == "R":
            _, s, q, r = rec
            want = "NONE" if r == 0 else "%d %d" % (q > 0, abs(int(r)))
            ok = rep.strip() == want or r == "EXC"
            corr_r.add(ok, {"instrument": s["id"], "board": s["board"], "quantity": q, "impl": r, "model": rep.strip()})
            ctx.nontrivial("round", s["board"], r == 0, abs(q) < 200, float(q) != int(q))
        else:
            ok = rep.strip() == str(rec[3])
            corr_d.add(ok, {"a": rec[1], "b": rec[2], "impl": rec[3], "model": rep.strip()})


def negative_cash_directed(ctx):
    """directed: available cash driven below zero by a vwap fill above the reserved price; then a BUY through every stock sizing API,
    with and without auto_switch_order_value — a request to buy must never create a SELL order"""
    import bundle as B, runner
    from rqalpha.environment import Environment
    rnd = random.Random(ctx.rnd.random())
    for auto in (False, True):
        S = B.gen_market(rnd, ndays=5, warm=1, n_stocks=2, with_future=False, opts={"kinds": ["CS"], "p_delist": 0, "p_split": 0, "p_div": 0, "p_sus": 0, "p_limit": 0, "p_thin": 0})
        st = S["stocks"][0]
        oid = st["id"]
        oid2 = S["stocks"][1]["id"]
        # every day opens above its close: vwap = (open + close) / 2 > close = the price a market order reserves
        for i, b in list(st["bars"].items()):
            d14, o, c, hi, lo, v, tt, lu, ld = b
            o2 = min(lu, round(c * 1.04, 2))
            st["bars"][i] = (d14, o2, c, max(o2, c), min(o2, c), v, v * round((o2 + c) / 2, 2), lu, ld)
        # on the third day the first stock is suspended: order_target_portfolio cannot sell it to make room, the cash estimate stays negative
        S["sus"].setdefault(oid, []).append(B.d8(S["cal"][S["warm"] + 2]))
        log = []
        state = {"day": 0}

        def handle_bar(context, bar_dict):
            import rqalpha.api as api
            from rqalpha.model.order import LimitOrder
            state["day"] += 1
            acct = context.portfolio.accounts["STOCK"]
            if state["day"] == 1:
                api.order_value(oid, acct.cash)
            elif state["day"] == 2:
                for name, fn in (("order_shares", lambda: api.order_shares(oid, 100)), ("order_lots", lambda: api.order_lots(oid, 1)), ("order_value", lambda: api.order_value(oid, 5000)),
                                 ("order_percent", lambda: api.order_percent(oid, 0.01)), ("order_target_value", lambda: api.order_target_value(oid, acct.market_value + 5000)),
                                 ("order_to", lambda: api.order_to(oid, api.get_position(oid).quantity + 100))):
                    cash = acct.cash
                    try:
                        o = fn()
                        if isinstance(o, (list, tuple)):
                            o = o[0] if o else None
                        r = None if o is None else (o.side.name, o.quantity)
                    except Exception as ex:
                        r = "raised:%s:%s" % (type(ex).__name__, str(ex)[:80])
                    log.append((name, cash, r))
            elif state["day"] == 3:
                cash = acct.cash
                try:
                    rr = api.order_target_portfolio({oid2: 0.2})
                    r = [(o.side.name, o.quantity) for o in rr if o is not None]
                except Exception as ex:
                    r = "raised:%s:%s" % (type(ex).__name__, str(ex)[:80])
                log.append(("order_target_portfolio", cash, r))
        res, exc = runner.run_real(S, dict(accounts={"stock": 2000000.0}, sim={"matching_type": "vwap", "slippage": 0, "volume_limit": False, "price_limit": False},
                                           accounts_mod={"stock_t1": False, "auto_switch_order_value": auto}, risk={"validate_cash": False}),
                                   {"init": lambda c: None, "handle_bar": handle_bar})
        for name, cash, r in log:
            ctx.evaluations += 1
            ctx.stats["negative_cash_calls"] += int(cash < 0)
            ctx.nontrivial("negative_cash", name, auto, cash < 0, str(r)[:12])
            ctx.notes.append("negative-cash scenario: %s auto_switch=%s cash=%.2f -> %s" % (name, auto, cash, r))
            if name == "order_target_portfolio" and cash < 0 and isinstance(r, list) and any(sd == "BUY" and q <= 0 for sd, q in r):
                ctx.witness("C15.5", {"kind": "non_positive_buy_quantity", "api": name}, "order_target_portfolio({%s: 0.2}) with available cash %r (the only holding is suspended and cannot be sold): orders %r" % (oid2, cash, r),
                            {"scenario": "negative_cash_directed", "auto_switch": auto, "api": name, "cash": cash})
            if cash < 0 and isinstance(r, tuple) and r[0] == "SELL":
                ctx.witness("C15.1", {"kind": "buy_request_creates_sell", "api": name, "auto_switch": auto},
                            "%s (a request to BUY) with available cash %r%s created a SELL order for %s shares" % (name, cash, " and auto_switch_order_value" if auto else "", r[1]),
                            {"scenario": "negative_cash_directed", "auto_switch": auto, "api": name, "cash": cash})


def run(ctx):
    negative_cash_directed(ctx)
    corr_s = ctx.corr("stock sizing APIs", "created order (side, quantity) of every stock sizing call of real runs vs model `orderShares/orderLots/orderValue/orderTargetValue/stockOrderTo` on the same holding, closable, cash, value, price")
    corr_f = ctx.corr("futures open/close APIs", "created legs of buy/sell open/close(+close_today) vs model `futSubmit` (lot count truncated toward zero first)")
    corr_r = ctx.corr("_round_order_quantity", "direct calls of the real function on random quantities (incl. the 10-digit Decimal rounding region) vs model `roundOrderQty`")
    corr_d = ctx.corr("int(Decimal(a)/Decimal(b)) at prec 10", "Python's decimal module vs model `decQuot10`")
    direct(ctx, corr_r, corr_d)
    corr_p = ctx.corr("order_target_portfolio", "created orders (entry, side, quantity, limit) of every call whose target covers all holdings vs model `orderTargetPortfolio` on the same value, cash, holdings, prices, styles")
    tstream.stream(ctx, ctx.n(80, 3000), None, [], extra_sync=lambda c, tr, ix: sizing_sync(c, corr_s, corr_f, tr, ix, corr_p),
                   market_opts=lambda k: {"opts": {"p_split": 0.8 if k % 2 else 0.3, "p_delist": 0.1}}, cfg_opts=lambda k: {"p_auto_switch": 0.35, "frac_fut": True, "otp": True, "c15_plans": True})


def replay(ctx, data):
    run(ctx)
    return "%d witnesses" % len(ctx.witnesses)

"""C18 — the analysis report equals what happened.  Real runs with the analyser enabled (random trading, account mix, benchmark choice,
range length down to one day, failing runs) vs the Lean analyser model fed with an independent recording of the same run; monitors check
the statement's identities directly on the returned report."""
import random, math, datetime
import vlib, bundle as B, trading, probe_mod
from vlib import f2b, b2f, close

LEVEL = "proof"
RULE = ("daily runs of the trading stream (1-3 instruments, optional futures) with sys_analyser recording, benchmark in {none, one stock, weighted pair, 'null' mix, "
        "instrument with missing data}, date ranges of 1..25 days starting/ending on any calendar day, 15% of the runs ended by a strategy exception at a random bar; "
        "one evaluation = one report record / trade row / summary figure compared; non-trivial = run with trades and a report; distinct = by (benchmark kind, "
        "account mix, range length bucket, outcome)")
TRUSTED = ["the harness records TRADE / POST_SETTLEMENT through subscribe_event (user listeners run after the analyser's prepended one, same state)",
           "the final portfolio is read by a harness mod torn down first"]
ASSUMPTIONS = ["rqrisk statistics (alpha, beta, sharpe, draw-downs, ...), weekly/monthly resampling, turnover and plots are not modelled",
               "pow() is not interpreted in Lean: the model fixes its arguments, the value is compared in Python"]

DAYS_A_YEAR = 252


def ts14(dt):
    return int(dt.strftime("%Y%m%d%H%M%S"))


def rounding(ctx, corr):
    rnd = random.Random(ctx.rnd.random())
    xs = []
    for _ in range(ctx.n(3000, 60000)):
        k = rnd.random()
        if k < 0.3:
            x = rnd.uniform(-1e6, 1e6)
        elif k < 0.5:
            x = round(rnd.uniform(-1000, 1000), 4) + rnd.choice([0.00005, -0.00005, 0.0000005, 0.00001])      # decimal ties (not exact in binary)
        elif k < 0.6:
            x = rnd.randrange(-10 ** 6, 10 ** 6) / 2 ** rnd.randrange(1, 12)                                    # exact binary fractions (true ties at 1/2^k)
        elif k < 0.7:
            x = rnd.uniform(-1, 1) * 10 ** rnd.randrange(-9, 13)
        elif k < 0.8:
            x = rnd.choice([0.0, -0.0, 1e-5, -1e-5, 5e-5, -5e-5, 0.5, 1.5, 2.5, 0.00005, 2.675, 1.00000050, 1e15 + 0.3, 4503599627370497.0, 1e300])
        else:
            x = float(rnd.randrange(-10 ** 7, 10 ** 7)) / 10 ** rnd.randrange(0, 8)
        xs.append(x)
    for n in (4, 6):
        reps = vlib.ask_driver(["ROUNDDEC %d %s" % (n, " ".join(f2b(x) for x in xs))])[0].split()
        for x, r in zip(xs, reps):
            want = round(float(x), n)
            corr.add(f2b(want) == r, {"x": repr(x), "ndigits": n, "python": repr(want), "model": repr(b2f(r))})
    ctx.evaluations += 2 * len(xs)


def gen_benchmark(rnd, S):
    ids = [s["id"] for s in S["stocks"]]
    k = rnd.random()
    if k < 0.3 or not ids:
        return None, "none"
    if k < 0.65:
        return rnd.choice(ids), "single"
    if k < 0.8 and len(ids) >= 2:
        a, b = rnd.sample(ids, 2)
        return "%s:%s,%s:%s" % (a, rnd.choice([0.6, 1, 2]), b, rnd.choice([0.4, 1, 3])), "pair"
    if k < 0.9:
        return "%s:%s,null:%s" % (rnd.choice(ids), rnd.choice([0.5, 1]), rnd.choice([0.5, 2])), "null_mix"
    return "%s:2.0" % rnd.choice(ids), "single_weighted"


def parse_benchmark(b):
    if b is None:
        return None
    out = []
    for part in b.split(","):
        if ":" in part:
            o, w = part.split(":")
            out.append((o, float(w)))
        else:
            out.append((part, 1.0))
    return out


def one_run(ctx, corr):
    rnd = random.Random(ctx.rnd.random())
    S = B.gen_market(rnd, ndays=rnd.randrange(3, 26), opts={"p_delist": 0.1})
    if not S["stocks"]:
        return
    cfgk = trading.gen_config(rnd, S, {"no_signal": True})
    if not cfgk["accounts"]:
        return
    span = [d for d in S["cal"] if S["start"] <= d <= S["end"]]
    k = rnd.random()
    if k < 0.15:
        d0 = rnd.choice(span)
        start, end = d0, d0                                          # a single day
    elif k < 0.5:
        i = rnd.randrange(len(span))
        j = rnd.randrange(i, len(span))
        start = span[i] - datetime.timedelta(days=rnd.choice([0, 0, 1, 2]))
        end = span[j] + datetime.timedelta(days=rnd.choice([0, 0, 1, 2]))
        start, end = max(start, S["start"]), min(end, S["end"])
        if start > end:
            start, end = S["start"], S["end"]
    else:
        start, end = S["start"], S["end"]
    cfgk["start"], cfgk["end"] = start, end
    days = [d for d in S["cal"] if start <= d <= end]
    bench, bkind = gen_benchmark(rnd, S)
    fail_at = rnd.randrange(0, max(1, len(days))) if rnd.random() < 0.15 else None
    seen = {"bars": 0}

    def script(tr, handlers):
        hb = handlers["handle_bar"]

        def handle_bar(c, b):
            if fail_at is not None and seen["bars"] == fail_at:
                raise ValueError("strategy bug injected by the harness")
            seen["bars"] += 1
            hb(c, b)
        return dict(handlers, handle_bar=handle_bar)
    # the report is produced when ANY of record / benchmark / output options asks for it: with a benchmark, `record` may be off
    an = {"enabled": True, "record": (rnd.random() < 0.6) if bench is not None else True, "plot": False, "benchmark": bench}
    ctx.stats["record_" + str(an["record"])] += 1
    tr = trading.run_trading(rnd, S, cfgk, script=script, analyser=an)
    code = probe_mod.LAST.get("code")
    final = probe_mod.LAST.get("final")
    res = tr.result
    rp = {"seed_note": "analyser stream", "cfg": {k_: str(v) for k_, v in cfgk.items()}, "benchmark": bench, "days": [str(d) for d in days], "fail_at_bar": fail_at, "exit_code": code}
    ctx.stats["runs"] += 1
    ctx.stats["runs_" + str(code)] += 1
    ctx.stats["bench_" + bkind] += 1
    if not days:
        return
    rep = res.get("sys_analyser") if isinstance(res, dict) else None
    # ---- C18.4: a failed run returns no report
    if code != "EXIT_SUCCESS":
        ctx.evaluations += 1
        if res is not None:
            ctx.witness("C18.4", {"kind": "failed_run_returns"}, "run ended with %s but returned %r" % (code, type(res).__name__ if not isinstance(res, dict) else sorted(res)), rp)
        ctx.nontrivial("failed", bkind, code, len(days) > 1)
    elif rep is None:
        ctx.evaluations += 1
        ctx.witness("C18.1", {"kind": "no_report_from_successful_run"}, "the run succeeded (%d trading days, %d trades) but the returned result %r contains no analyser report"
                    % (len(days), len([1 for k_, _ in tr.events if k_ == "TRADE"]), res), rp)
        return
    # ---- independent recording -> model input
    evs, n_tr = [], 0
    settle = []
    for kind, e in tr.events:
        if kind == "TRADE":
            t = e["trade"]
            evs.append("T %d %d %s %s %s %s %s %s %s %d %d" % (t["exec_id"], t["order_id"] or 0, t["book"], t["side"], t["effect"], f2b(t["qty"]), f2b(t["price"]), f2b(t["tax"]), f2b(t["commission"]),
                                                           ts14(t["dt"]), ts14(t["tdt"])))
            n_tr += 1
        elif kind == "ORDER_CREATION_PASS":
            evs.append("O %d" % e["order"]["id"])
        elif kind == "POST_SETTLEMENT":
            pf = e["pf"]
            accts, poss = e["rows"]
            toks = ["S", str(B.d8(e["cal"].date()))] + [f2b(pf[x]) for x in ("cash", "total_value", "market_value", "nav", "units", "static_nav", "daily_returns", "daily_pnl")]
            toks += [str(len(accts))] + [y for t_, f in accts for y in [t_, str(len(f))] + [f2b(v) for v in f]]
            toks += [str(len(poss))] + [y for t_, f in poss for y in [t_, str(len(f))] + [f2b(v) for v in f]]
            evs.append(" ".join(toks))
            settle.append(e)
        elif kind in ("PRE_BAR", "POST_BAR"):
            evs.append("X")
    bparts = parse_benchmark(bench)
    btoks = ["-"]
    bench_ok = True
    end8 = B.d8(days[-1])
    if bparts is not None:
        from props import c20
        btoks = [str(len(bparts))]
        for oid, w in bparts:
            if oid == "null":
                cs = [1.0] * (len(days) + 1)
            else:
                # the benchmark's closes as the history model (C20) returns them: the last len(days)+1 bars up to the end date,
                # suspended days included, pre-adjusted relative to the end date
                srec = next(x for x in S["stocks"] if x["id"] == oid)
                cs = []
                if ctx.driver_ok:
                    hrep = vlib.ask_driver(["HIST %d 0 0 pre %d %d %d %s %s" % (srec["type"] == "CS", len(days) + 1, end8, end8, c20.bars_line(S, srec), c20.facs_line(S, srec))])[0].split()
                    if hrep[0] != "NONE":
                        nb = int(hrep[0])
                        rows = [hrep[1 + 9 * i: 10 + 9 * i] for i in range(nb)]
                        if nb == len(days) + 1 and int(rows[1][0]) == B.d8(days[0]):
                            cs = [b2f(r[2]) for r in rows]
                if not cs:
                    bench_ok = False
            btoks += [f2b(w), str(len(cs))] + [f2b(c) for c in cs]
    if code == "EXIT_SUCCESS" and not bench_ok:
        ctx.witness("C18.3", {"kind": "benchmark_without_data_succeeds"}, "benchmark %s has no complete close series for the range but the run succeeded" % bench, rp)
        return
    fin = final or {}
    last_pf = settle[-1]["pf"] if settle else {"daily_returns": 0.0, "daily_pnl": 0.0}
    ftoks = [f2b(fin.get(x, 0.0)) for x in ("cash", "total_value", "market_value", "nav", "units", "static_nav")] + [f2b(last_pf["daily_returns"]), f2b(last_pf["daily_pnl"])]
    date_count = len([d for d in S["cal"] if days[0] <= d <= fin.get("trading_date", days[-1])]) if fin else len(days)
    line = "ANALYSE %s 1 %d %d %s %s %s" % ({"EXIT_SUCCESS": "S", "EXIT_USER_ERROR": "U"}.get(code, "I"), date_count, len(days), " ".join(ftoks),
                                           " ".join(btoks if bench_ok else ["-"]), " ".join(evs))
    if not ctx.driver_ok:
        return
    out = vlib.ask_driver([line])[0].split()
    if code != "EXIT_SUCCESS":
        corr.add((out == ["NONE"]) == (res is None), {"exit_code": code, "model": out[:1], "implementation_returned": None if res is None else "a result"})
        return
    if out[0] != "REPORT":
        corr.add(False, {"model": out[:3], "implementation": "report with %d records" % len(rep["portfolio"])})
        return
    # ---- parse the model's report
    it = iter(out[1:])
    nx = lambda: next(it)
    m_sum = {k_: b2f(nx()) for k_ in ("total_value", "cash", "total_returns", "unit_net_value", "units")}

    def ann():
        t = nx()
        if t == "M":
            return -1
        if t == "-":
            return None
        base, n = b2f(nx()), int(nx())
        return base ** (DAYS_A_YEAR / n) - 1
    m_sum["annualized_returns"] = ann()
    t = nx()
    m_sum["benchmark_total_returns"] = None if t == "-" else b2f(t)
    m_sum["benchmark_annualized_returns"] = ann()
    assert nx() == "NP"
    m_pf = [(int(nx()), [b2f(nx()) for _ in range(6)]) for _ in range(int(nx()))]
    assert nx() == "NT"
    m_tr = []
    for _ in range(int(nx())):
        m_tr.append((int(nx()), int(nx()), nx(), nx(), nx(), b2f(nx()), b2f(nx()), b2f(nx()), b2f(nx()), b2f(nx()), int(nx()), int(nx())))
    assert nx() == "NA"
    m_ac = []
    for _ in range(int(nx())):
        d, tag, nf = int(nx()), nx(), int(nx())
        m_ac.append((d, tag, [b2f(nx()) for _ in range(nf)]))
    assert nx() == "NPOS"
    m_pos = []
    for _ in range(int(nx())):
        d, tag, nf = int(nx()), nx(), int(nx())
        m_pos.append((d, tag, [b2f(nx()) for _ in range(nf)]))
    assert nx() == "NB"
    t = nx()
    m_bn = None if t == "-" else [b2f(nx()) for _ in range(int(t))]
    # ---- the implementation's report
    pf = rep["portfolio"]
    i_pf = [(B.d8(ix.date()), [float(row[c]) for c in ("cash", "total_value", "market_value", "unit_net_value", "units", "static_unit_net_value")]) for ix, row in pf.iterrows()]
    trd = rep["trades"]
    i_tr = []
    if len(trd):
        for _, row in trd.iterrows():
            i_tr.append((int(row["exec_id"]), 0 if (row["order_id"] is None or row["order_id"] != row["order_id"]) else int(row["order_id"]), row["order_book_id"], row["side"], row["position_effect"], float(row["last_quantity"]), float(row["last_price"]),
                         float(row["tax"]), float(row["commission"]), float(row["transaction_cost"]), int(row["datetime"].replace("-", "").replace(":", "").replace(" ", "")),
                         int(row["trading_datetime"].replace("-", "").replace(":", "").replace(" ", ""))))
    i_ac = []
    for t_ in ("stock", "future"):
        df = rep.get(t_ + "_account")
        if df is not None:
            cols = ["cash", "transaction_cost", "market_value", "total_value"] + (["position_pnl", "trading_pnl", "daily_pnl", "margin"] if t_ == "future" else [])
            for ix, row in df.iterrows():
                i_ac.append((B.d8(ix.date()), t_.upper(), [float(row[c]) for c in cols]))
    i_pos = []
    df = rep.get("stock_positions")
    if df is not None and len(df):
        for ix, row in df.iterrows():
            i_pos.append((B.d8(ix.date()), row["order_book_id"], [float(row[c]) for c in ("quantity", "last_price", "avg_price", "market_value")]))
    summ = rep["summary"]

    def same(a, b):
        if a is None or b is None:
            return a is None and b is None
        return (a != a and b != b) or f2b(a) == f2b(b) or a == b

    def rows_same(x, y):
        return len(x) == len(y) and all(a[:-1] == b[:-1] and len(a[-1]) == len(b[-1]) and all(same(u, v) for u, v in zip(a[-1], b[-1])) for a, b in zip(x, y))
    ok_pf = rows_same(i_pf, m_pf)
    ok_tr = len(i_tr) == len(m_tr) and all(a[:5] == b[:5] and a[10:] == b[10:] and all(same(u, v) for u, v in zip(a[5:10], b[5:10])) for a, b in zip(i_tr, m_tr))
    ok_ac = rows_same(sorted(i_ac, key=lambda r: (r[1], r[0])), sorted(m_ac, key=lambda r: (r[1], r[0])))
    ok_pos = rows_same(sorted(i_pos, key=lambda r: (r[0], r[1])), sorted(m_pos, key=lambda r: (r[0], r[1])))
    ok_sum = all(same(float(summ[k_]), m_sum[k_]) for k_ in ("total_value", "cash", "total_returns", "unit_net_value", "units"))
    ok_ann = same(float(summ["annualized_returns"]), float(m_sum["annualized_returns"]))
    ok_b = True
    if bparts is not None:
        ok_b = same(float(summ["benchmark_total_returns"]), m_sum["benchmark_total_returns"]) and same(float(summ["benchmark_annualized_returns"]), float(m_sum["benchmark_annualized_returns"]))
        bp = rep.get("benchmark_portfolio")
        ok_b = ok_b and bp is not None and m_bn is not None and len(bp) == len(m_bn) and all(same(float(a), b) for a, b in zip(bp["unit_net_value"].values, m_bn))
    else:
        ok_b = "benchmark_total_returns" not in summ
    ok = ok_pf and ok_tr and ok_ac and ok_pos and ok_sum and ok_ann and ok_b
    ctx.evaluations += len(i_pf) + len(i_tr) + len(i_ac) + len(i_pos) + 8
    detail = {"days": len(days), "benchmark": bench, "parts_equal": {"portfolio": ok_pf, "trades": ok_tr, "accounts": ok_ac, "positions": ok_pos, "summary": ok_sum, "annualized": ok_ann, "benchmark": ok_b}}
    if not ok:
        if not ok_pf:
            detail["portfolio_first_difference"] = next(((a, b) for a, b in zip(i_pf, m_pf) if not rows_same([a], [b])), (len(i_pf), len(m_pf)))
        if not ok_tr:
            detail["trades_first_difference"] = next(((a, b) for a, b in zip(i_tr, m_tr) if a != b), (len(i_tr), len(m_tr)))
        if not ok_sum or not ok_ann:
            detail["summary"] = {k_: (float(summ[k_]), m_sum[k_]) for k_ in m_sum if k_ in summ and m_sum[k_] is not None}
        if not ok_b and bparts is not None:
            detail["benchmark_values"] = (float(summ.get("benchmark_total_returns", float("nan"))), m_sum["benchmark_total_returns"])
    corr.add(ok, detail)
    # ---- monitors on the report itself (independent of the model)
    rec_days = [d for d, _ in i_pf]
    if rec_days != [B.d8(d) for d in days]:
        ctx.witness("C18.1", {"kind": "record_days"}, "report has records for %s, the trading days of the run are %s" % (rec_days[:12], [B.d8(d) for d in days][:12]), rp)
    for (d, vals), e in zip(i_pf, settle):
        p = e["pf"]
        want = [round(p["cash"], 4), round(p["total_value"], 4), round(p["market_value"], 4), round(p["nav"], 6), p["units"], round(p["static_nav"], 4)]
        if B.d8(e["cal"].date()) != d or not all(same(a, b) for a, b in zip(vals, want)):
            ctx.witness("C18.2", {"kind": "record_values"}, "record of %s is %s, the portfolio at that day's settlement was %s" % (d, vals, want), rp)
            break
    pub = [(e["trade"]["exec_id"], e["trade"]["order_id"] or 0, e["trade"]["book"], e["trade"]["side"], e["trade"]["effect"], e["trade"]["qty"], round(e["trade"]["price"], 4), e["trade"]["tax"],
            e["trade"]["commission"]) for k_, e in tr.events if k_ == "TRADE"]
    got = [r[:9] for r in i_tr]
    if len(pub) != len(got) or any(a[:5] != b[:5] or not all(same(float(u), float(v)) for u, v in zip(a[5:], b[5:])) for a, b in zip(pub, got)):
        ctx.witness("C18.2", {"kind": "trade_table"}, "trade table has %d rows, %d trades were published; first difference %s" % (len(got), len(pub), next(((a, b) for a, b in zip(pub, got) if a != b), None)), rp)
    # a position the system closes out (a futures contract held into its expiry) is a trade like any other: it must be in the report's trade table
    prev_acc = None
    for k_, e in tr.events:
        if k_ == "POST_AFTER_TRADING":
            prev_acc = e["accounts"]
        elif k_ == "POST_SETTLEMENT" and prev_acc is not None and "FUTURE" in prev_acc and "FUTURE" in e["accounts"]:
            day8 = B.d8(e["cal"].date())
            after = {h["id"]: h for h in e["accounts"]["FUTURE"]["holdings"]}
            for h in prev_acc["FUTURE"]["holdings"]:
                for sd in ("long", "short"):
                    q0 = h[sd]["qty"]
                    q1 = after.get(h["id"], {sd: {"qty": 0}})[sd]["qty"]
                    if q0 and not q1 and e["accounts"]["FUTURE"]["holdings"]:      # (an emptied account is a forced liquidation, not a close-out)
                        rows = [r for r in i_tr if r[2] == h["id"] and (r[1] in (0, None, "None", "")) and float(r[5]) == float(q0)]
                        ctx.stats["expiry_closeouts_checked"] += 1
                        if not rows:
                            ctx.witness("C18.2", {"kind": "closeout_missing_from_trade_table"}, "%s: the %s position of %s lots in %s was closed out by the system at the settlement of %s, "
                                        "the report's trade table has no such trade (rows for the contract: %s)" % (day8, sd, q0, h["id"], day8, [r for r in i_tr if r[2] == h["id"]][-3:]), rp)
            prev_acc = None
    if final:
        nav = final["nav"]
        if not same(float(summ["total_returns"]), nav - 1) or not same(float(summ["unit_net_value"]), nav):
            ctx.witness("C18.3", {"kind": "total_returns"}, "summary total_returns %r, final unit net value %r - 1 = %r" % (summ["total_returns"], nav, nav - 1), rp)
        comp = 1.0
        for e in settle:
            comp *= 1 + e["pf"]["daily_returns"]
        nav0 = 1.0
        if all(e["pf"]["daily_returns"] == e["pf"]["daily_returns"] for e in settle) and not close(comp - 1, float(summ["total_returns"]), 1e-9, 1e-9):
            ctx.witness("C18.3", {"kind": "compounding"}, "compounded daily returns - 1 = %r, summary total_returns %r" % (comp - 1, summ["total_returns"]), rp)
        want_ann = -1 if nav <= 0 else nav ** (DAYS_A_YEAR / len(days)) - 1
        if not close(float(summ["annualized_returns"]), want_ann, 1e-12, 1e-12):
            ctx.witness("C18.3", {"kind": "annualized"}, "annualized_returns %r, pow(%r, %d/%d) - 1 = %r" % (summ["annualized_returns"], nav, DAYS_A_YEAR, len(days), want_ann), rp)
    if bparts is not None and len(bparts) == 1 and bparts[0][0] != "null":
        # ratio of the benchmark's closes, ex-rights adjusted (a split or dividend is not a price move): close x cumulative factor
        srec = next(x for x in S["stocks"] if x["id"] == bparts[0][0])
        i0, i1 = S["cal"].index(days[0]) - 1, S["cal"].index(days[-1])
        fac = S["fac"].get(srec["id"]) or [(0, 1.0)]

        def F(i):
            d = srec["bars"][i][0]
            return [f for (d0, f) in fac if d0 <= d][-1]
        want_b = (srec["bars"][i1][2] * F(i1)) / (srec["bars"][i0][2] * F(i0)) - 1
        if not close(float(summ["benchmark_total_returns"]), want_b, 1e-9, 1e-12):
            ctx.witness("C18.3", {"kind": "benchmark_total"}, "benchmark_total_returns %r, ratio of (adjusted) benchmark closes %r x %r / (%r x %r) - 1 = %r"
                        % (summ["benchmark_total_returns"], srec["bars"][i1][2], F(i1), srec["bars"][i0][2], F(i0), want_b), rp)
        want_ba = (want_b + 1) ** (DAYS_A_YEAR / len(days)) - 1
        if not close(float(summ["benchmark_annualized_returns"]), want_ba, 1e-8, 1e-12):
            ctx.witness("C18.3", {"kind": "benchmark_annualized"}, "benchmark_annualized_returns %r, expected %r" % (summ["benchmark_annualized_returns"], want_ba), rp)
    if bparts is not None and len(bparts) > 1:
        # composite benchmark: the daily return is the weight-normalised average of the parts' daily returns (a 'null' part returns 0)
        i0, i1 = S["cal"].index(days[0]) - 1, S["cal"].index(days[-1])
        wsum = sum(w for _, w in bparts)
        comp_b = 1.0
        for i in range(i0 + 1, i1 + 1):
            r_d = 0.0
            for oid, w in bparts:
                if oid == "null":
                    continue
                srec = next(x for x in S["stocks"] if x["id"] == oid)
                fac = S["fac"].get(oid) or [(0, 1.0)]
                Fi = lambda j: [f for (d0, f) in fac if d0 <= srec["bars"][j][0]][-1]
                r_d += w * ((srec["bars"][i][2] * Fi(i)) / (srec["bars"][i - 1][2] * Fi(i - 1)) - 1)
            comp_b *= 1 + r_d / wsum
        if not close(float(summ["benchmark_total_returns"]), comp_b - 1, 1e-9, 1e-12):
            ctx.witness("C18.3", {"kind": "composite_benchmark_total"}, "benchmark %s: benchmark_total_returns %r, compounded weight-normalised daily returns of the parts - 1 = %r"
                        % (bench, summ["benchmark_total_returns"], comp_b - 1), rp)
    ctx.nontrivial("report", bkind, tuple(sorted(cfgk["accounts"])), min(len(days), 3), n_tr > 0)
    ctx.stats["records"] += len(i_pf)
    ctx.stats["trade_rows"] += len(i_tr)
    ctx.sample({"days": len(days), "benchmark": bench, "trades": len(i_tr), "total_returns": float(summ["total_returns"]), "exit": code})


def run(ctx):
    corr_r = ctx.corr("round(x, n)", "Python round(float, 4|6) vs model `R.roundDec` (bit-exact), incl. decimal and binary ties, tiny/huge values, signed zeros")
    corr = ctx.corr("analyser report", "report of real runs (portfolio/trade/account/position tables, summary figures, benchmark series) vs model `collect` + `analyserTearDown` fed with the independently recorded events, bit-exact")
    if ctx.driver_ok:
        rounding(ctx, corr_r)
    for _ in range(ctx.n(50, 2500)):
        one_run(ctx, corr)


def replay(ctx, data):
    run(ctx)
    return "%d witnesses" % len(ctx.witnesses)

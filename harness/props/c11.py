"""C11 — transaction costs.  Correspondence: the real deciders (wired by the real sys_transaction_cost mod inside a
real run on a synthetic bundle) vs the Lean model (Float instance) on generated fill sequences, bit for bit.
Monitors: the published schedule evaluated independently on the implementation's answers."""
import math, random, datetime
import vlib, bundle as B, runner
from vlib import f2b, b2f, bit_eq, close

LEVEL = "proof"
RULE = ("fill sequences of one order generated around the minimum-commission threshold (raw commission below / at / above the minimum, "
        "1-6 fills, prices on a 0.01 grid, lots and odd lots), multipliers from {0, 0.5, 1, 2.5}, instrument types CS/ETF/INDX/futures "
        "by money and by volume, dates around the tax change; non-trivial = at least two fills or a sell or a close-today part; "
        "distinct = by (type, side, number of fills, which side of the threshold each partial sum lies, multiplier class)")
TRUSTED = ["Trade/Order objects are built with the repository's own constructors; the deciders are those the real mod registered"]
ASSUMPTIONS = ["theorems are over exact rationals; the implementation computes in binary64 (identities checked to 1e-9 relative)",
               "C11.1 is proved for positive raw commissions; commission_multiplier = 0 is the excluded region (finding F6a)"]

PUBLISHED = {"rate": 0.0008, "tax_before": 0.001, "tax_after": 0.0005, "change": datetime.date(2023, 8, 28)}


def gen_fills(rnd, min_c, rate_mult):
    """fill list [(price, qty)] whose cumulative raw commission straddles the minimum in varied ways"""
    n = rnd.choice([1, 1, 2, 2, 3, 4, 6])
    price = round(rnd.uniform(1.5, 120), 2)
    target = min_c / max(rate_mult, 1e-9) if (min_c > 0 and rate_mult > 0) else 6000.0      # turnover at which raw == min
    mode = rnd.random()
    fills = []
    if mode < 0.15 and rate_mult > 0 and min_c > 0:
        # exact threshold on the first or the cumulative fill
        q = max(1, int(round(target / price)))
        fills.append((price, q))
        n -= 1
    for _ in range(n):
        scale = rnd.choice([0.05, 0.2, 0.5, 0.9, 1.0, 1.1, 2.0, 10.0])
        q = max(1, int(target * scale / price / max(1, n)))
        if rnd.random() < 0.7:
            q = max(100, q // 100 * 100)
        p = price if rnd.random() < 0.5 else round(price * (1 + rnd.uniform(-0.02, 0.02)), 2)
        fills.append((p, q))
    return fills


def direct_calls(ctx, n_seq, cfgs):
    """run one real back-test per cost configuration; inside init (all mods started) call the real deciders"""
    from rqalpha.environment import Environment
    from rqalpha.model.trade import Trade
    from rqalpha.model.order import Order, LimitOrder
    from rqalpha.const import SIDE, POSITION_EFFECT, INSTRUMENT_TYPE
    from rqalpha.core.events import Event, EVENT

    c_comm = ctx.corr("stock.get_trade_commission", "per-fill commissions of a fill sequence: real decider vs model `chargeFills`, bit-exact")
    c_tax = ctx.corr("stock.get_trade_tax", "real `get_trade_tax` vs model `stockTax`, bit-exact")
    c_ord = ctx.corr("stock.get_order_transaction_cost", "real vs model `stockOrderCost`, bit-exact")
    c_val = ctx.corr("stock.get_transaction_cost_with_value", "real vs model `stockCostWithValue`, bit-exact")
    c_pit = ctx.corr("stock.set_tax_rate", "rate in force on a date: real `set_tax_rate` vs model `pitTaxRate` over the regenerated constants")
    c_fut = ctx.corr("future.get_trade_commission", "real vs model `futCommission`, bit-exact")
    c_fo = ctx.corr("future.get_order_transaction_cost", "real vs model `futOrderCost`, bit-exact")

    for cfg in cfgs:
        rnd = random.Random(ctx.rnd.random())
        S = B.gen_market(rnd, ndays=3, n_stocks=2, with_future=True, opts={"kinds": ["CS", "ETF"], "p_delist": 0, "p_split": 0, "p_div": 0, "n_futures": 3, "p_expire": 0})
        # make sure one CS and one ETF exist
        S["stocks"][0]["type"] = "CS"
        S["stocks"][1]["type"] = "ETF"
        reqs = []      # (corr, model request line, impl answer, case description, monitor info)
        mult, min_c, tax_mult, pit = cfg["mult"], cfg["min_c"], cfg["tax_mult"], cfg["pit"]

        def init(context):
            env = Environment.get_instance()
            dec = env._transaction_cost_decider_dict
            ids = {"CS": S["stocks"][0]["id"], "ETF": S["stocks"][1]["id"], "INDX": "000001.XSHG"}
            for _ in range(n_seq):
                ctx.evaluations += 1
                typ = rnd.choice(["CS", "CS", "CS", "ETF", "INDX"])
                oid = ids[typ]
                d = dec[env.data_proxy.instrument(oid).type]
                side = rnd.choice([SIDE.BUY, SIDE.SELL])
                # point-in-time tax: move the decider's date
                if pit:
                    day = PUBLISHED["change"] + datetime.timedelta(days=rnd.choice([-400, -1, 0, 1, 300]))
                    dt = datetime.datetime.combine(day, datetime.time(0, 0))
                    env.event_bus.publish_event(Event(EVENT.PRE_BEFORE_TRADING, calendar_dt=dt, trading_dt=dt)) if False else d.set_tax_rate(Event(EVENT.PRE_BEFORE_TRADING, calendar_dt=dt, trading_dt=dt))
                    reqs.append((c_pit, "PITTAX %s %s %s %d" % (cfg["change"], f2b(cfg["tax_before"]), f2b(cfg["tax_after"]), B.d8(day)),
                                 [d.tax_rate], {"day": str(day)}, ("pit", day, d.tax_rate)))
                tax_rate = d.tax_rate
                fills = gen_fills(rnd, min_c, PUBLISHED["rate"] * mult)
                oidn = rnd.randrange(1, 10 ** 9)
                got = []
                taxes = []
                for p, q in fills:
                    tr = Trade.__from_create__(oidn, p, q, side, None, oid, calendar_dt=env.calendar_dt or datetime.datetime(2020, 1, 1),
                                               trading_dt=env.trading_dt or datetime.datetime(2020, 1, 1))
                    got.append(d.get_trade_commission(tr))
                    tx = d.get_trade_tax(tr)
                    taxes.append(tx)
                    reqs.append((c_tax, "STKTAX %s %s %d %d %s" % (f2b(tax_rate), f2b(tax_mult), typ == "CS", side == SIDE.SELL, f2b(p * q)),
                                 [tx], {"type": typ, "side": side.name, "price": p, "qty": q}, ("tax", typ, side.name, p, q, tax_rate, tx)))
                line = "STKCOMM %s %s %s %s" % (f2b(cfg["rate"]), f2b(mult), f2b(min_c), " ".join("%s %s" % (f2b(p), f2b(q)) for p, q in fills))
                reqs.append((c_comm, line, got, {"type": typ, "fills": fills, "mult": mult, "min": min_c, "charged": [float(g) for g in got]},
                             ("comm", typ, fills, got)))
                # order-level estimate
                price, qty = fills[0]
                o = Order.__from_create__(oid, qty, side, LimitOrder(price), None)
                oc = d.get_order_transaction_cost(o)
                reqs.append((c_ord, "STKORD %s %s %s %s %s %d %d %s %s" % (f2b(cfg["rate"]), f2b(mult), f2b(min_c), f2b(tax_rate), f2b(tax_mult),
                                                                         typ == "CS", side == SIDE.SELL, f2b(o.frozen_price), f2b(qty)),
                             [oc], {"type": typ, "side": side.name, "price": price, "qty": qty}, ("ord", typ, side.name, o.frozen_price, qty, tax_rate, oc)))
                v = round(rnd.uniform(0, 30000), 2)
                cs = dec[INSTRUMENT_TYPE.CS]
                wv = cs.get_transaction_cost_with_value(v, side)
                reqs.append((c_val, "STKVAL %s %s %s %s %s %d %s" % (f2b(cfg["rate"]), f2b(mult), f2b(min_c), f2b(cs.tax_rate), f2b(tax_mult), side == SIDE.SELL, f2b(v)),
                             [wv], {"value": v, "side": side.name}, None))
                # futures
                # the first look-ups go to the contracts that carry a contract-level override, then to their siblings
                # (the resolved schedule of a contract must not depend on which contracts were looked up before it)
                order0 = sorted(S["futures"], key=lambda f_: (f_["id"] not in (cfg.get("future_info") or {}), f_["id"]))
                fut = order0[_] if _ < len(order0) else rnd.choice(S["futures"])
                info = resolve_info(fut, cfg.get("future_info") or {})
                fd = dec[INSTRUMENT_TYPE.FUTURE]
                eff = rnd.choice([POSITION_EFFECT.OPEN, POSITION_EFFECT.CLOSE, POSITION_EFFECT.CLOSE_TODAY])
                fq = rnd.choice([1, 2, 3, 5, 10, 37])
                ct = fq if eff == POSITION_EFFECT.CLOSE_TODAY else (0 if eff == POSITION_EFFECT.OPEN else rnd.randrange(0, fq + 1))
                fp = float(rnd.randrange(1500, 6000))
                fside = rnd.choice([SIDE.BUY, SIDE.SELL])
                ftr = Trade.__from_create__(oidn + 1, fp, fq, fside, eff, fut["id"], close_today_amount=ct,
                                            calendar_dt=datetime.datetime.combine(S["start"], datetime.time(15, 0)),
                                            trading_dt=datetime.datetime.combine(S["start"], datetime.time(15, 0)))
                fc = fd.get_trade_commission(ftr)
                by_money = info["commission_type"] == "by_money"
                cfgline = "%d %s %s %s %s %s" % (by_money, f2b(info["open_commission_ratio"]), f2b(info["close_commission_ratio"]),
                                                 f2b(info["close_commission_today_ratio"]), f2b(fut["mult"]), f2b(cfg["fmult"]))
                reqs.append((c_fut, "FUTCOMM %s %d %s %s %s" % (cfgline, eff == POSITION_EFFECT.OPEN, f2b(fp), f2b(fq), f2b(ct)),
                             [fc], {"contract": fut["id"], "effect": eff.name, "price": fp, "qty": fq, "close_today": ct},
                             ("fut", info, fut["mult"], cfg["fmult"], eff.name, fp, fq, ct, fc, fd.get_trade_tax(ftr))))
                fo = Order.__from_create__(fut["id"], fq, fside, LimitOrder(fp), eff)
                foc = fd.get_order_transaction_cost(fo)
                reqs.append((c_fo, "FUTORD %s %d %d %s %s" % (cfgline, eff == POSITION_EFFECT.OPEN, eff == POSITION_EFFECT.CLOSE_TODAY, f2b(fo.frozen_price), f2b(fq)),
                             [foc], {"contract": fut["id"], "effect": eff.name, "price": fp, "qty": fq}, None))

        res, exc = runner.run_real(S, dict(accounts={"stock": 1e6, "future": 1e6},
                                           cost={"stock_commission_multiplier": mult, "futures_commission_multiplier": cfg["fmult"],
                                                 "cn_stock_min_commission": min_c, "tax_multiplier": tax_mult, "pit_tax": pit},
                                           base_extra={"future_info": cfg["future_info"]} if cfg.get("future_info") else None),
                                   {"init": init})
        if exc is not None:
            raise RuntimeError("direct-call run failed: %r" % (exc,))
        replies = vlib.ask_driver([r[1] for r in reqs]) if ctx.driver_ok else [None] * len(reqs)
        for (corr, line, got, case, mon), rep in zip(reqs, replies):
            if rep is not None:
                want = rep.split()
                ok = len(want) == len(got) and all(f2b(g) == w for g, w in zip(got, want))
                corr.add(ok, dict(case, request=line, impl=[float(g) for g in got], model=[b2f(w) for w in want] if not rep.startswith("ERR") else rep))
            if mon is not None:
                monitor(ctx, cfg, mon)


def resolve_info(fut, custom):
    """the documented resolution: bundle default for the underlying, overridden by `base.future_info` keyed by the
    contract or else by the underlying — for THIS contract only"""
    info = dict(fut["info"])
    ov = custom.get(fut["id"]) or custom.get(fut["under"])
    if ov:
        info.update(ov)
    return info


def monitor(ctx, cfg, mon):
    """the published schedule, evaluated on what the IMPLEMENTATION answered (independent of the Lean model)"""
    kind = mon[0]
    mult, min_c, tax_mult = cfg["mult"], cfg["min_c"], cfg["tax_mult"]
    if kind == "comm":
        _, typ, fills, got = mon
        turnover = math.fsum(p * q for p, q in fills)
        raw = PUBLISHED["rate"] * mult * turnover
        want = max(min_c, raw)
        total = math.fsum(got)
        thr = tuple((PUBLISHED["rate"] * mult * math.fsum(p * q for p, q in fills[:k + 1]) > min_c) for k in range(len(fills)))
        if len(fills) >= 2:
            ctx.nontrivial("comm", typ, len(fills), thr, mult == 0, min_c == 0)
        ctx.stats["comm_seq"] += 1
        ctx.stats["comm_fills"] += len(fills)
        if any(g < 0 for g in got):
            ctx.witness("C11.4", {"kind": "negative_commission"}, "negative commission %r for fills %r" % (got, fills),
                        {"kind": "comm", "cfg": cfg, "fills": fills, "type": typ})
        if not close(total, want, 1e-9, 1e-9):
            sig = {"kind": "commission_total", "zero_multiplier": mult == 0}
            ctx.witness("C11.1", sig, "fills %r (multiplier %s, minimum %s): charged %r in total %r, schedule says max(min, rate*mult*turnover) = %r"
                        % (fills, mult, min_c, [float(g) for g in got], total, want), {"kind": "comm", "cfg": cfg, "fills": fills, "type": typ})
        ctx.sample({"fills": fills, "multiplier": mult, "min": min_c, "charged": [float(g) for g in got]})
    elif kind == "tax":
        _, typ, side, p, q, rate, tx = mon
        want = p * q * rate * tax_mult if (typ == "CS" and side == "SELL") else 0
        if side == "SELL":
            ctx.nontrivial("tax", typ, rate, tax_mult)
        ctx.stats["tax_calls"] += 1
        if tx < 0 or not close(tx, want, 1e-12, 1e-12):
            ctx.witness("C11.2", {"kind": "tax", "type": typ, "side": side}, "%s %s %r x %r: tax %r, schedule %r" % (typ, side, p, q, tx, want),
                        {"kind": "tax", "cfg": cfg, "type": typ, "side": side, "price": p, "qty": q})
    elif kind == "pit":
        _, day, rate = mon
        want = PUBLISHED["tax_before"] if day < PUBLISHED["change"] else PUBLISHED["tax_after"]
        ctx.nontrivial("pit", day < PUBLISHED["change"])
        if rate != want:
            ctx.witness("C11.2", {"kind": "pit_rate"}, "tax rate in force on %s is %r, published %r" % (day, rate, want), {"kind": "pit", "day": str(day)})
    elif kind == "ord":
        _, typ, side, price, qty, rate, oc = mon
        want = max(price * qty * PUBLISHED["rate"] * mult, min_c) + (price * qty * rate * tax_mult if (typ == "CS" and side == "SELL") else 0)
        if not close(oc, want, 1e-12, 1e-12):
            ctx.witness("C11.1", {"kind": "order_cost"}, "order cost %r, schedule %r" % (oc, want), {"kind": "ord", "cfg": cfg})
    elif kind == "fut":
        _, info, cm, fmult, eff, p, q, ct, fc, ftax = mon
        if info["commission_type"] == "by_money":
            want = (p * q * cm * info["open_commission_ratio"]) if eff == "OPEN" else (p * (q - ct) * cm * info["close_commission_ratio"] + p * ct * cm * info["close_commission_today_ratio"])
        else:
            want = (q * info["open_commission_ratio"]) if eff == "OPEN" else ((q - ct) * info["close_commission_ratio"] + ct * info["close_commission_today_ratio"])
        want *= fmult
        ctx.nontrivial("fut", info["commission_type"], eff, ct == 0, ct == q, fmult)
        ctx.stats["fut_calls"] += 1
        if fc < 0 or ftax != 0 or not close(fc, want, 1e-12, 1e-12):
            ctx.witness("C11.3", {"kind": "futures_commission", "effect": eff, "type": info["commission_type"]},
                        "%s %s price %r qty %r close_today %r: commission %r, schedule %r" % (info["commission_type"], eff, p, q, ct, fc, want),
                        {"kind": "fut", "cfg": cfg})


def configs(ctx):
    """cost configurations; the constants the model is given are the ones REGENERATED from the source"""
    import json, os, re
    consts = open(os.path.join(vlib.LEAN, "RQ", "GenR", "Consts.lean")).read()
    tables = open(os.path.join(vlib.LEAN, "RQ", "Gen", "Tables.lean")).read()

    def c(name, text=consts):
        m = re.search(r"def %s : Option \w+ := some \(?([0-9.]+)" % name, text)
        return float(m.group(1)) if m else float("nan")
    rate, tb, ta, td = c("stockCommissionRate"), c("stockTaxRateBefore"), c("stockTaxRateAfter"), c("stockTaxRateDefault")
    change = int(c("stockPitTaxChangeDate", tables)) if c("stockPitTaxChangeDate", tables) == c("stockPitTaxChangeDate", tables) else 0
    out = []
    combos = [(1, 5, 1, False, 1), (1, 5, 1, True, 1), (0.5, 5, 2, False, 2.5), (2.5, 0, 1, True, 0.5), (1, 0.1, 0, False, 1), (0, 5, 1, False, 0)]
    overrides = [None, {"RB2010": {"close_commission_ratio": 0.00025, "close_commission_today_ratio": 0.0, "open_commission_ratio": 0.00005}},
                 {"RB": {"commission_type": "by_volume", "open_commission_ratio": 1.5, "close_commission_ratio": 1.5, "close_commission_today_ratio": 3.0}},
                 None, {"RB2101": {"open_commission_ratio": 0.0002}, "IF": {"close_commission_today_ratio": 9.0}}, None]
    for (mult, min_c, tax_mult, pit, fmult), ov in zip(combos, overrides):
        out.append({"mult": mult, "min_c": min_c, "tax_mult": tax_mult, "pit": pit, "fmult": fmult, "rate": rate,
                    "tax_before": tb, "tax_after": ta, "tax_default": td, "change": change, "future_info": ov})
    return out


def fills_monitor(ctx, tr, ix):
    """the fees of the fills of real runs (futures): what is charged as closed-today is part of what was filled, a close-today order's
    fills are closed-today entirely, and every fill's commission is the contract's schedule applied to (price, filled lots, closed-today lots)"""
    import monitors
    rp = monitors.replay_of(tr)
    fmult = tr.cfg["cost"].get("futures_commission_multiplier", 1)
    for kind, e in tr.events:
        if kind != "TRADE" or e["trade"]["book"] not in ix.fut or e["order"] is None:      # (delivery at expiry is a system trade without a fee)
            continue
        t = e["trade"]
        f = ix.fut[t["book"]]
        info, q, ct, p = f["info"], t["qty"], t["close_today"], t["price"]
        ctx.evaluations += 1
        ctx.stats["futures_fills_checked"] += 1
        ctx.nontrivial("fill", t["effect"], ct > 0, ct == q, info["commission_type"])
        if ct < 0 or ct > q:
            ctx.witness("C11.4", {"kind": "close_today_amount_exceeds_fill", "effect": t["effect"]}, "%s %s %s lots at %r on %s: %s lots are charged as closed today"
                        % (t["book"], t["effect"], q, p, e["cal"], ct), rp)
            continue
        if t["effect"] == "CLOSE_TODAY" and ct != q:
            ctx.witness("C11.4", {"kind": "close_today_fill_not_all_today", "effect": t["effect"]}, "%s CLOSE_TODAY fill of %s lots at %s: %s lots charged as closed today" % (t["book"], q, e["cal"], ct), rp)
        if t["effect"] == "OPEN":
            want = (p * q * f["mult"] * info["open_commission_ratio"]) if info["commission_type"] == "by_money" else q * info["open_commission_ratio"]
        else:
            if info["commission_type"] == "by_money":
                want = p * (q - ct) * f["mult"] * info["close_commission_ratio"] + p * ct * f["mult"] * info["close_commission_today_ratio"]
            else:
                want = (q - ct) * info["close_commission_ratio"] + ct * info["close_commission_today_ratio"]
        want *= fmult
        if not close(t["commission"], want, 1e-9):
            ctx.witness("C11.4", {"kind": "futures_fill_commission", "effect": t["effect"]}, "%s %s %s lots (%s closed today) at %r: commission %r, schedule %r (%s, multiplier %s)"
                        % (t["book"], t["effect"], q, ct, p, t["commission"], want, info["commission_type"], fmult), rp)


def run(ctx):
    cfgs = configs(ctx)
    direct_calls(ctx, ctx.n(250, 6000), cfgs)
    # fills of real runs: futures accounts, thin bars (orders filled in several parts by the volume cap), close-today orders
    import tstream
    tstream.stream(ctx, ctx.n(25, 800), None, [fills_monitor], acct_types=("FUTURE",),
                   market_opts=lambda k: {"with_future": True, "n_stocks": 0, "opts": {"p_expire": 0.3}}, cfg_opts=lambda k: {"no_signal": True, "force_volume_limit": True, "fut_plan": "two_closes" if k % 2 else None})      # odd runs: two closes created before either fills


def replay(ctx, data):
    """re-run a recorded witness on the current implementation"""
    pl = data["payload"]["replay"] if "replay" in data.get("payload", {}) else data.get("payload", {})
    cfgs = [c for c in configs(ctx) if not pl.get("cfg") or all(c.get(k) == pl["cfg"].get(k) for k in ("mult", "min_c", "tax_mult", "pit", "fmult"))] or configs(ctx)
    ctx.budget_scale = 1.0
    direct_calls(ctx, 400, cfgs[:1])
    return "%d witnesses" % len(ctx.witnesses)

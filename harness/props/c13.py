"""C13 — determinism and isolation.  (1) The process-state model (Lean, flags regenerated from the source) vs the process-level state
real runs observe when several scenarios run one after the other in one process.  (2) Differential monitors on canonical traces of the
real rqalpha in subprocesses: fresh process with two hash seeds, after random histories of other scenarios (incl. failing runs), on a
superset of the data set."""
import os, sys, json, random, subprocess, concurrent.futures
import vlib

LEVEL = "proof"
RULE = ("target scenarios of kinds stock / future / mixed / T+0 / no-reinvest / analyser, each run (a) fresh with two PYTHONHASHSEEDs, (b) as the last of 2-4 scenarios of "
        "random other kinds (incl. runs ended by a strategy exception) in one process, (c) on the data set extended by 2-5 unreferenced instruments placed before and after "
        "the referenced ones; one evaluation = one trace comparison or one observed process-state view; non-trivial = trace with trades; distinct = by (target kind, history kinds, comparison)")
TRUSTED = ["subprocess worker harness/iso_worker.py (no isolation work-around applied)", "canonical trace: floats by repr, order/trade ids renumbered by first appearance (theorem renumber_relabel)"]
ASSUMPTIONS = ["the differential comparisons are tests (they exhibit failing inputs); the theorems are about the process-state model, tied to the source by the regenerated flags and to the "
               "running code by the observed process state"]

HERE = os.path.dirname(os.path.dirname(os.path.abspath(__file__)))
KINDS = ["stock", "future", "mixed", "t0", "noreinvest", "fail", "failbt", "analyser", "initpos", "rebalance", "splithold", "roundprice"]


def run_job(specs, switches, hashseed):
    env = dict(os.environ, PYTHONPATH=vlib.REPO + ":" + HERE, PYTHONHASHSEED=str(hashseed))
    p = subprocess.run(["/venv/bin/python", os.path.join(HERE, "iso_worker.py")], input=json.dumps({"specs": specs, "switches": switches}), capture_output=True, text=True, env=env, timeout=900)
    if p.returncode != 0:
        raise RuntimeError("iso_worker failed: " + p.stderr[-1500:])
    return json.loads(p.stdout)


def run(ctx):
    import isotrace
    rnd = random.Random(ctx.rnd.random())
    flags = vlib.ask_driver(["ISOFLAGS"])[0].split() if ctx.driver_ok else None
    switches = [t.split(":")[0] for t in flags[6:]] if flags else ["StockPosition.dividend_reinvestment", "StockPosition.cash_return_by_stock_delisted", "StockPosition.t_plus_enabled"]
    corr = ctx.corr("process state", "class-level switches, rqalpha.api bindings of per-run objects, bundle that answers order-API look-ups and the Environment singleton as observed by "
                                     "each run of a multi-run process vs model `runOnce` folded over the same sequence with the flags regenerated from the source")
    corr_r = ctx.corr("renumber", "identifier renumbering of the canonical traces vs model `renumber`")
    n_targets = ctx.n(6, 60)
    jobs = []
    for t in range(n_targets):
        kind = ["stock", "future", "rebalance", "t0", "initpos", "decsell"][t] if t < 6 else rnd.choice(["stock", "future", "mixed", "t0", "noreinvest", "analyser", "initpos", "rebalance", "decsell"])
        x = {"seed": rnd.randrange(1, 10 ** 6), "kind": kind}
        hist = [{"seed": rnd.randrange(1, 10 ** 6), "kind": rnd.choice(KINDS)} for _ in range(rnd.randrange(1, 4))]
        if kind == "initpos":
            hist = [{"seed": rnd.randrange(1, 10 ** 6), "kind": "future"}, {"seed": rnd.randrange(1, 10 ** 6), "kind": "stock"}]   # directed: a futures-trading run earlier in the process
        if kind == "decsell":
            # directed: an earlier run carried a holding over a split, another rounded limit prices to the tick (both work with the decimal module)
            hist = [{"seed": rnd.randrange(1, 10 ** 6), "kind": "splithold"}, {"seed": rnd.randrange(1, 10 ** 6), "kind": "roundprice"}]
        if t == 0:
            hist = [{"seed": rnd.randrange(1, 10 ** 6), "kind": "t0"}, {"seed": rnd.randrange(1, 10 ** 6), "kind": "future"}]      # directed: T+0 then futures-only before a default stock run
        if t in (1, 2):
            # directed: an earlier run of the process died inside a phase (before the open / inside handle_bar) — whatever it left behind must not reach this run
            hist = [{"seed": rnd.randrange(1, 10 ** 6), "kind": "failbt" if t == 1 else "fail"}]
        h1, h2 = rnd.randrange(1, 1000), rnd.randrange(1000, 2000)
        jobs.append(("fresh1", t, [x], h1))
        jobs.append(("fresh2", t, [x], h2))
        jobs.append(("history", t, hist + [x], h1))
        jobs.append(("superset", t, [dict(x, extra=rnd.randrange(2, 6))], h1))
    results = {}
    with concurrent.futures.ThreadPoolExecutor(max_workers=min(14, os.cpu_count() or 4)) as ex:
        futs = {ex.submit(run_job, specs, switches, hs): (name, t, specs, hs) for name, t, specs, hs in jobs}
        for f in concurrent.futures.as_completed(futs):
            name, t, specs, hs = futs[f]
            results[(name, t)] = (f.result(), specs, hs)
    for t in range(n_targets):
        base, specs, h1 = results[("fresh1", t)]
        base = base[0]
        x = specs[0]
        n_tr = len([e for e in base["trace"] if e[0] == "TRADE"])
        rp0 = {"target": x, "note": "replay: harness/iso_worker.py with the listed specs in one process"}
        for name, what, pid in (("fresh2", "a fresh process with another PYTHONHASHSEED", "C13.1"), ("history", "the same process after other scenarios", "C13.2"),
                                ("superset", "a data set extended by unreferenced instruments", "C13.3")):
            out, sp, hs = results[(name, t)]
            other = out[-1]
            ctx.evaluations += 1
            d = isotrace.first_difference(base["trace"], other["trace"])
            ctx.nontrivial(x["kind"], name, tuple(s["kind"] for s in sp[:-1]), n_tr > 0)
            ctx.stats["compared_" + name] += 1
            if d is not None:
                i, a, b = d
                kind = (a or b)[0]
                ctx.witness(pid, {"kind": name, "first_diff": kind, "target_kind": x["kind"] if name != "history" else None},
                            "scenario %s run in %s differs from the fresh run at trace entry %d (%s): fresh %s | other %s" % (x, what, i, kind, json.dumps(a)[:300], json.dumps(b)[:300]),
                            dict(rp0, specs=sp, hashseeds=[h1, hs], comparison=name, entry=i))
        # ---- process-state correspondence on the history job
        out, sp, hs = results[("history", t)]
        if ctx.driver_ok:
            toks = []
            for k, r in enumerate(out, start=1):
                sw = [str(v if v is not None else 0) for v in r["config_switches"]]
                exports = ["scheduler"] + (["plot"] if r["analyser"] else [])
                ids = [r["own"]] * len(r["obs"].get("own_results", [])) if r["own"] else []
                toks += [str(k), str(len(sw))] + sw + [str(len(exports))] + exports + [str(len(ids))] + ids
            rep = vlib.ask_driver(["ISO " + " ".join(toks)])[0].split()
            it = iter(rep)
            for k, r in enumerate(out, start=1):
                assert next(it) == "V"
                m_sw = [next(it) for _ in range(int(next(it)))]
                m_api = [next(it) for _ in range(int(next(it)))]
                m_res = [int(next(it)) for _ in range(int(next(it)))]
                m_env = int(next(it))
                o = r["obs"]
                if "switches" not in o:          # the run did not reach init (start-up failure): nothing observed
                    ctx.stats["runs_without_observation"] += 1
                    continue
                i_sw = ["-" if v is None else str(v) for v in o.get("switches", [])]
                i_api = [str(o.get("api_scheduler_owner") or "-")] + ([str(o.get("api_plot_owner") or "-")] if r["analyser"] else [])
                # the own instrument is known to this run's bundle only: the look-up succeeds iff this run's bundle answers
                i_res = [not s.startswith("raised") for s in o.get("own_results", [])]
                ok = (i_sw == m_sw and i_api == m_api and i_res == [x_ == k for x_ in m_res] and (m_env == k) == bool(o.get("env_is_mine")))
                corr.add(ok, {"run": k, "of": [s["kind"] for s in sp], "observed": {"switches": i_sw, "api": i_api, "own_bundle_answers": i_res, "env_is_mine": o.get("env_is_mine")},
                              "model": {"switches": m_sw, "api": m_api, "answered_by_run": m_res, "env": m_env}})
                ctx.evaluations += 1
        # ---- renumbering: model vs harness on the raw ids of this trace is covered by canon(); check the model function on a sample
    if ctx.driver_ok:
        for _ in range(200):
            ids = [rnd.choice([15000001, 15000002, 15000007, 16000000, 3]) + rnd.randrange(3) for _ in range(rnd.randrange(0, 12))]
            seen = {}
            want = [seen.setdefault(i, len(seen)) for i in ids]
            rep = vlib.ask_driver(["RENUMBER " + " ".join(map(str, ids))])[0].split()
            corr_r.add([int(v) for v in rep] == want, {"ids": ids, "model": rep, "harness": want})
    # ---- strategies given as SOURCE CODE (run_code — the path of `rqalpha run -f`): what one strategy defines at module level must not reach the next
    def code_job(spec, codes):
        here = os.path.dirname(os.path.abspath(__file__))
        p_ = subprocess.run(["/venv/bin/python", os.path.join(here, "..", "code_worker.py")], input=json.dumps({"spec": spec, "codes": codes}), capture_output=True, text=True,
                            env=dict(os.environ, PYTHONPATH=vlib.REPO), timeout=600)
        if p_.returncode != 0:
            raise RuntimeError("code_worker failed: " + p_.stderr[-1500:])
        return json.loads(p_.stdout.strip().splitlines()[-1])["logs"]
    cjobs = []
    for _ in range(ctx.n(2, 12)):
        spec = {"seed": rnd.randrange(1, 10 ** 6), "kind": "stock"}
        for target, hist in (("plain", ["hooks"]), ("state", ["hooks", "state"]), ("hooks", ["plain", "state"])):
            cjobs.append((spec, target, hist))
    with concurrent.futures.ThreadPoolExecutor(max_workers=min(12, os.cpu_count() or 4)) as ex:
        futs = {ex.submit(lambda sp, tg, hs: (code_job(sp, [tg]), code_job(sp, hs + [tg])), *cj): cj for cj in cjobs}
        for f in concurrent.futures.as_completed(futs):
            spec, target, hist = futs[f]
            fresh, after = f.result()
            ctx.evaluations += 1
            ctx.stats["compared_source_code_histories"] += 1
            ctx.nontrivial("run_code", target, tuple(hist), len(fresh[0]["log"]) > 0)
            a, b = fresh[0], after[-1]
            if a != b:
                i = next((k for k, (x, y) in enumerate(zip(a["log"], b["log"])) if x != y), min(len(a["log"]), len(b["log"])))
                ctx.witness("C13.2", {"kind": "source_code_history", "target": target},
                            "strategy source %r run with run_code after the sources %r in the same process differs from its run in a fresh process at log entry %d: fresh %s | after %s (ends: %s | %s)"
                            % (target, hist, i, json.dumps(a["log"][i:i + 1])[:240], json.dumps(b["log"][i:i + 1])[:240], a["end"], b["end"]),
                            {"spec": spec, "codes": hist + [target], "note": "replay: harness/code_worker.py with this job on stdin"})
    ctx.sample({"targets": n_targets, "jobs": len(jobs)})


def replay(ctx, data):
    run(ctx)
    return "%d witnesses" % len(ctx.witnesses)

"""C17 — scheduler.  Correspondence: (a) whole daily runs with every day rule x several time rules registered through the
real `scheduler` API, (b) a real `Scheduler('1m')` instance driven bar by bar for the minute time rules, (c) direct calls of
`_fill_week/_fill_month`, `market_open/market_close/physical_time`, and the civil-date functions against `datetime`;
all against the Lean model.  Monitors: the calendar specification evaluated directly on the recorded firings."""
import datetime, random
import vlib, bundle as B, runner

LEVEL = "proof"
RULE = ("calendars with holidays (weeks and months shortened, months with < n days), runs starting mid-week/mid-month; every weekday, every "
        "n in [-5,5] (weekly) and [-23,23] (monthly) plus values outside the ranges, time rules before_trading / default / market_open / market_close / "
        "physical_time inside and outside trading hours; minute frequency driven on the real Scheduler with dense and sparse bar sequences; "
        "non-trivial = a rule that fires on some but not all days of the run; distinct = by (rule kind, n, time rule, pattern class of firings)")
TRUSTED = ["minute-frequency time rules are checked by driving the real Scheduler object bar by bar (harness supplies the clock), not by a minute back-test"]
ASSUMPTIONS = ["month-bucket cache transparency is kernel-checked for 2000-01-01..2040-12-31; outside that range the civil functions are compared with datetime only",
               "daily frequency: one bar per day (C08)"]


def rule_label(r):
    return {"D": "run_daily", "W": "run_weekly(weekday=%s)", "N": "run_weekly(tradingday=%s)", "M": "run_monthly(tradingday=%s)"}[r[0]] % (() if r[0] == "D" else (r[1:],))


def spec_day_rule(cal, d, r):
    """the property's reading, straight from the calendar (cal: list of dates)"""
    if r == "D":
        return True
    k = int(r[1:])
    if r[0] == "W":
        return d.weekday() == k - 1
    if r[0] == "N":
        bucket = [x for x in cal if x.isocalendar()[:2] == d.isocalendar()[:2]]
    else:
        bucket = [x for x in cal if (x.year, x.month) == (d.year, d.month)]
    if k > 0:
        return len(bucket) >= k and bucket[k - 1] == d
    return len(bucket) >= -k and bucket[k] == d


def whole_run(ctx, corr, corr_t, year_end=False):
    from rqalpha.core.execution_context import ExecutionContext
    from rqalpha.environment import Environment
    rnd = random.Random(ctx.rnd.random())
    ndays = rnd.randrange(25, 70)
    cal_start = datetime.date(rnd.choice([2019, 2020, 2021]), rnd.randrange(1, 13), rnd.randrange(1, 28))
    if year_end:          # a run across the turn of the year (December is the month whose successor is in another year)
        ndays = max(ndays, 50)
        cal_start = datetime.date(cal_start.year, rnd.choice([11, 12]), cal_start.day)
    S = B.gen_market(rnd, ndays=ndays, warm=rnd.randrange(0, 6), n_stocks=1, with_future=False,
                     opts={"kinds": ["CS"], "p_delist": 0, "p_split": 0, "p_div": 0, "p_sus": 0, "p_limit": 0, "p_thin": 0,
                           "cal_start": cal_start})
    stock = S["stocks"][0]["id"]
    cal = S["cal"]
    # run range: starts mid-week / mid-month somewhere inside the calendar
    start = S["start"]
    end = S["end"]
    day_rules = ["D"] + ["W%d" % w for w in range(1, 8)] + ["N%d" % k for k in range(-5, 6) if k] + ["M%d" % k for k in range(-23, 24) if k]
    time_rules = [("default", None), ("BT", "before_trading"), ("open+5", ("market_open", 0, 5)), ("close-1", ("market_close", 0, 1)),
                  ("phys12:00", ("physical_time", 12, 0)), ("open+2h10", ("market_open", 2, 10))]
    fired = []          # (rule index, date, slot, phase, order outcome)
    regs = []
    bad_args = []

    def init(context):
        import rqalpha.api as api          # `scheduler` is exported by the mod at start-up
        scheduler, market_open, market_close, physical_time, order_shares = api.scheduler, api.market_open, api.market_close, api.physical_time, api.order_shares
        env = Environment.get_instance()
        for dr in day_rules:
            for tname, tr in time_rules:
                if dr[0] == "M" and tname not in ("default", "BT") and rnd.random() < 0.7:
                    continue
                idx = len(regs)
                trv = tr
                if isinstance(tr, tuple):
                    trv = {"market_open": market_open, "market_close": market_close, "physical_time": physical_time}[tr[0]](hour=tr[1], minute=tr[2])
                probe_order = (tname == "BT" and rnd.random() < 0.15) or (tname == "default" and rnd.random() < 0.03)

                def mk(idx, probe_order):
                    def f(context, bar_dict):
                        outcome = None
                        if probe_order:
                            try:
                                o = order_shares(stock, 100)
                                outcome = "accepted" if o is not None else "none"
                            except Exception as ex:
                                outcome = "refused"
                        fired.append((idx, context.now, ExecutionContext.phase().name, outcome))
                    return f
                f = mk(idx, probe_order)
                if dr == "D":
                    scheduler.run_daily(f, time_rule=trv)
                elif dr[0] == "W":
                    scheduler.run_weekly(f, weekday=int(dr[1:]), time_rule=trv)
                elif dr[0] == "N":
                    scheduler.run_weekly(f, tradingday=int(dr[1:]), time_rule=trv)
                else:
                    scheduler.run_monthly(f, tradingday=int(dr[1:]), time_rule=trv)
                regs.append((dr, tname, trv))
        # arguments outside the accepted ranges must be refused (user error), not registered
        for call, kw in (("run_weekly", {"weekday": 0}), ("run_weekly", {"weekday": 8}), ("run_weekly", {"tradingday": 6}), ("run_weekly", {"tradingday": -6}),
                         ("run_weekly", {"tradingday": 0}), ("run_monthly", {"tradingday": 24}), ("run_monthly", {"tradingday": -24}), ("run_monthly", {"tradingday": 0})):
            n0 = len(scheduler._registry) if hasattr(scheduler, "_registry") else None
            try:
                getattr(scheduler, call)(lambda c, b: None, **kw)
                bad_args.append((call, kw, "accepted"))
            except ValueError:
                bad_args.append((call, kw, "refused"))

    res, exc = runner.run_real(S, dict(accounts={"stock": 1e7}, start=start, end=end), {"init": init})
    if exc is not None:
        raise RuntimeError("scheduler run failed: %r" % (exc,))
    days = [d for d in cal if start <= d <= end]
    ctx.evaluations += len(regs) * len(days)
    for call, kw, out in bad_args:
        if out != "refused":
            ctx.witness("C17.args", {"kind": "bad_argument_accepted", "call": call}, "%s(%s) was accepted" % (call, kw), {"call": call, "kw": kw})
    # ---- implementation firings per registration
    by_reg = {}
    for idx, now, phase, outcome in fired:
        by_reg.setdefault(idx, []).append((now, phase, outcome))
    # ---- model prediction
    calo = [d.toordinal() for d in cal]
    dayso = [d.toordinal() for d in days]
    if ctx.driver_ok:
        rep = vlib.ask_driver(["SCHD %d %s RUN %d %s %d %s" % (len(calo), " ".join(map(str, calo)), len(dayso), " ".join(map(str, dayso)),
                                                            len(day_rules), " ".join(day_rules))])[0]
        model_days = {dr: set(int(x) for x in part.split()) for dr, part in zip(day_rules, rep.split("|"))}
        tlines = []
        for dr, tname, trv in regs:
            tlines.append("SCHTIME 1 0 4 571 690 780 900 1 %s 900" % ("BT" if trv == "before_trading" else str(571 if trv is None else trv)))
        treps = vlib.ask_driver(tlines)
    else:
        model_days, treps = None, [None] * len(regs)
    for idx, (dr, tname, trv) in enumerate(regs):
        got = by_reg.get(idx, [])
        got_days = [now.date() for now, _, _ in got]
        # monitor: calendar specification
        want_days_spec = [d for d in days if spec_day_rule(cal, d, dr)]
        n = 571 if trv is None else trv
        in_hours = trv == "before_trading" or (571 <= n <= 690 or 780 <= n <= 900)
        want = want_days_spec if in_hours else []
        if 0 < len(want) < len(days):
            ctx.nontrivial(dr[0], dr[1:], tname, len(want) > 3)
        if got_days != want:
            extra = [str(d) for d in got_days if d not in want][:4]
            missing = [str(d) for d in want if d not in got_days][:4]
            ctx.witness("C17.days", {"kind": "firing_days", "rule": dr[0]}, "%s time_rule=%s fired on %d days, specification %d days (extra %s, missing %s); run %s..%s"
                        % (rule_label(dr), tname, len(got_days), len(want), extra, missing, start, end), {"rule": dr, "time": tname, "cal": [str(d) for d in cal], "start": str(start), "end": str(end)})
        for now, phase, outcome in got:
            slot_bt = now.hour == 0
            if (trv == "before_trading") != slot_bt:
                ctx.witness("C17.slot", {"kind": "slot"}, "%s time_rule=%s ran at %s" % (rule_label(dr), tname, now), {"rule": dr, "time": tname})
            want_phase = "BEFORE_TRADING" if trv == "before_trading" else "SCHEDULED"
            if phase != want_phase:
                ctx.witness("C17.phase", {"kind": "phase", "slot": want_phase}, "%s time_rule=%s ran in phase %s, expected %s" % (rule_label(dr), tname, phase, want_phase), {"rule": dr, "time": tname})
            if outcome is not None:
                ctx.stats["order_probe_" + outcome] += 1
                if trv == "before_trading" and outcome != "refused":
                    ctx.witness("C17.order", {"kind": "order_before_trading"}, "a function scheduled before trading placed an order (%s) at %s" % (outcome, now), {"rule": dr})
                if trv != "before_trading" and outcome == "refused":
                    ctx.witness("C17.order", {"kind": "order_refused_at_bar"}, "a bar-time scheduled function was refused an order at %s" % now, {"rule": dr})
        # correspondence with the model
        if model_days is not None:
            md = sorted(model_days[dr])
            trep = treps[idx].split()
            bt, bars = trep[0] == "1", trep[1:]
            m_days = md if (bt or bars) else []
            ok = [d.toordinal() for d in got_days] == m_days and all((now.hour == 0) == bt for now, _, _ in got)
            corr.add(ok, {"rule": rule_label(dr), "time_rule": tname, "impl_days": [str(d) for d in got_days][:8], "model_days": [str(datetime.date.fromordinal(x)) for x in m_days][:8],
                          "run": "%s..%s" % (start, end)})
    ctx.sample({"run": "%s..%s" % (start, end), "calendar_days": len(cal), "registrations": len(regs), "firings": len(fired)})
    ctx.stats["registrations"] += len(regs)
    ctx.stats["firings"] += len(fired)


def minute_drive(ctx, corr):
    """drive a real Scheduler('1m') bar by bar"""
    from rqalpha.environment import Environment
    from rqalpha.mod.rqalpha_mod_sys_scheduler.scheduler import Scheduler, market_open, market_close, physical_time
    rnd = random.Random(ctx.rnd.random())
    S = B.gen_market(rnd, ndays=8, warm=0, n_stocks=1, with_future=False, opts={"kinds": ["CS"], "p_delist": 0, "p_split": 0, "p_div": 0})
    log = []

    class Stub(object):
        now = None

    class Ev(object):
        bar_dict = None
    state = {"changed": False}

    def init(context):
        env = Environment.get_instance()
        sched = Scheduler("1m")
        stub = Stub()
        sched._ucontext = stub
        rules = []
        cands = [None, "before_trading", market_open(minute=0), market_open(minute=5), market_open(hour=1, minute=59), market_open(hour=2), market_open(hour=2, minute=10),
                 market_close(minute=0), market_close(minute=1), market_close(hour=1, minute=59), market_close(hour=2, minute=10), physical_time(12, 0),
                 physical_time(9, 30), physical_time(9, 31), physical_time(13, 0), physical_time(13, 1), physical_time(15, 0), physical_time(15, 1), physical_time(11, 30)]
        cands += [rnd.randrange(560, 910) for _ in range(6)]
        fired = []
        for i, tr in enumerate(cands):
            sched.run_daily((lambda i: (lambda c, b: fired.append((i, stub.now))))(i), time_rule=tr)
            rules.append(tr)
        full = list(range(571, 691)) + list(range(781, 901))
        try:
            for day in S["cal"][:6]:
                mode = rnd.random()
                if mode < 0.4:
                    bars = full
                elif mode < 0.8:
                    bars = sorted(rnd.sample(full, rnd.randrange(1, 30)))
                else:
                    bars = sorted(rnd.sample(full, rnd.randrange(100, 239)))
                dt0 = datetime.datetime.combine(day, datetime.time(0, 0))
                env.update_time(dt0, dt0)
                stub.now = dt0
                del fired[:]
                from rqalpha.core.events import EVENT, Event
                if day == S["cal"][2]:
                    # the universe changes before the third day (subscribe / update_universe): the sessions are re-read from the instruments; the day's start
                    # minute becomes the minute BEFORE the first session opens, so that a rule at the first bar (09:31) still fires
                    sched._universe_change(Event(EVENT.POST_UNIVERSE_CHANGED, universe=[S["stocks"][0]["id"]]))
                    state["changed"] = True
                # the events as the executor publishes them (listeners may read their clocks)
                sched.next_day_(Event(EVENT.PRE_BEFORE_TRADING, calendar_dt=dt0, trading_dt=dt0))
                sched.before_trading_(Event(EVENT.BEFORE_TRADING, calendar_dt=dt0, trading_dt=dt0))
                bt = set(i for i, _ in fired)
                del fired[:]
                for m in bars:
                    stub.now = datetime.datetime.combine(day, datetime.time(m // 60, m % 60))
                    sched.next_bar_(Ev())
                per = {}
                for i, now in fired:
                    per.setdefault(i, []).append(now.hour * 60 + now.minute)
                # specification of the day's start minute: 0 until the universe changed, then one minute before the stock session opens (09:31 - 1)
                log.append((day, bars, bt, per, 570 if state["changed"] else 0, sorted(sched._trading_minute_range)))
                if sched._start_minute != (570 if state["changed"] else 0):
                    state["start_minute_seen"] = sched._start_minute
        finally:
            sched._registry[:] = []
            env.update_time(None, None)
        log.append(rules)

    res, exc = runner.run_real(S, dict(accounts={"stock": 1e6}), {"init": init})
    if exc is not None:
        raise RuntimeError("minute drive failed: %r" % (exc,))
    rules = log.pop()
    lines, meta = [], []
    for day, bars, bt, per, start_minute, ranges in log:
        for i, tr in enumerate(rules):
            ctx.evaluations += 1
            rl = "BT" if tr == "before_trading" else str(571 if tr is None else tr)
            lines.append("SCHTIME 0 %d %d %s 1 %s %s" % (start_minute, 2 * len(ranges), " ".join("%d %d" % r for r in ranges), rl, " ".join(map(str, bars))))
            got = per.get(i, [])
            meta.append((day, tr, i in bt, got, bars))
            # monitor: fires once at the first bar with time >= n (inside trading hours), never otherwise
            if tr == "before_trading":
                want_bt, want = True, []
            else:
                n = 571 if tr is None else tr
                inh = any(a <= n <= b for a, b in ranges)
                later = [m for m in bars if m >= n]
                want_bt, want = False, ([later[0]] if (inh and later and n > start_minute) else [])
            ctx.nontrivial("1m", tr if isinstance(tr, str) else ("in" if want else "out"), len(bars) > 100, bool(want) and want[0] != (571 if tr is None else tr))
            if (i in bt) != want_bt or got != want:
                ctx.witness("C17.time", {"kind": "minute_time_rule"}, "time rule %r on %s with %d bars: fired before_trading=%s, at bars %s; specification before_trading=%s, bars %s"
                            % (tr, day, len(bars), i in bt, got, want_bt, want), {"time_rule": tr, "bars": bars})
    reps = vlib.ask_driver(lines) if ctx.driver_ok else []
    for (day, tr, bt, got, bars), rep in zip(meta, reps):
        t = rep.split()
        ok = (t[0] == "1") == bt and [int(x) for x in t[1:]] == got
        corr.add(ok, {"time_rule": tr, "day": str(day), "n_bars": len(bars), "impl": [bt, got], "model": rep})
    ctx.stats["minute_rule_days"] += len(meta)


def night_drive(ctx):
    """a night session: the events of trading day d are published on the EVENING BEFORE (calendar date = the previous trading day, trading date = d).
    Day rules denote TRADING days: weekday / n-th trading day of the week or month are read off the trading date."""
    from rqalpha.environment import Environment
    from rqalpha.core.events import EVENT, Event
    from rqalpha.mod.rqalpha_mod_sys_scheduler.scheduler import Scheduler
    rnd = random.Random(ctx.rnd.random())
    S = B.gen_market(rnd, ndays=rnd.randrange(18, 30), warm=0, n_stocks=1, with_future=False, opts={"kinds": ["CS"], "p_delist": 0, "p_split": 0, "p_div": 0})
    out = []

    def init(context):
        env = Environment.get_instance()
        sched = Scheduler("1m")

        class Stub(object):
            now = None
        stub = Stub()
        sched._ucontext = stub
        rules = ["W%d" % k for k in (1, 2, 5)] + ["N%d" % k for k in (1, 2, -1)] + ["M%d" % k for k in (1, 3, -1, -2)]
        fired = []
        for r in rules:
            f = (lambda r: (lambda c, b: fired.append(r)))(r)
            if r[0] == "W":
                sched.run_weekly(f, weekday=int(r[1:]), time_rule="before_trading")
            elif r[0] == "N":
                sched.run_weekly(f, tradingday=int(r[1:]), time_rule="before_trading")
            else:
                sched.run_monthly(f, tradingday=int(r[1:]), time_rule="before_trading")
        try:
            cal = S["cal"]
            for i in range(1, len(cal)):
                d = cal[i]
                cdt = datetime.datetime.combine(cal[i - 1], datetime.time(20, 55))
                tdt = datetime.datetime.combine(d, datetime.time(20, 55))
                env.update_time(cdt, tdt)
                stub.now = cdt
                del fired[:]
                sched.next_day_(Event(EVENT.PRE_BEFORE_TRADING, calendar_dt=cdt, trading_dt=tdt))
                sched.before_trading_(Event(EVENT.BEFORE_TRADING, calendar_dt=cdt, trading_dt=tdt))
                out.append((d, sorted(fired), rules))
        finally:
            sched._registry[:] = []
            env.update_time(None, None)
    res, exc = runner.run_real(S, dict(accounts={"stock": 1e6}), {"init": init})
    if exc is not None:
        raise RuntimeError("night drive failed: %r" % (exc,))
    cal = S["cal"]
    for d, got, rules in out:
        for r in rules:
            ctx.evaluations += 1
            want = spec_day_rule(cal, d, r)
            if (r in got) != want:
                ctx.witness("C17.days", {"kind": "night_session_day_rule", "rule": r[0]}, "night session of trading day %s (events published on the evening before): %s %s, the calendar says %s"
                            % (d, rule_label(r), "fired" if r in got else "did not fire", "fires" if want else "does not fire"), {"rule": r, "day": str(d)})
                return
    ctx.stats["night_session_days"] += len(out)


def night_minute_drive(ctx, corr):
    """minute bars of a contract with a night session (its trading hours list the night session FIRST: it opens the trading day): a real Scheduler('1m') reads the
    sessions off the real Instrument; a time rule fires once, at the bar of its own minute — in the night session and in the day session alike"""
    from rqalpha.environment import Environment
    from rqalpha.core.events import EVENT, Event
    from rqalpha.mod.rqalpha_mod_sys_scheduler.scheduler import Scheduler, physical_time
    rnd = random.Random(ctx.rnd.random())
    S = B.gen_market(rnd, ndays=6, warm=1, n_stocks=0, with_future=True, opts={"n_futures": 1, "p_expire": 0})
    fid = S["futures"][0]["id"]
    S["futures"][0]["trading_hours"] = "21:01-23:00,09:01-10:15,10:31-11:30,13:31-15:00"
    night = list(range(1261, 1381))
    dayb = list(range(541, 616)) + list(range(631, 691)) + list(range(811, 901))
    rules = [physical_time(21, 30), physical_time(22, 0), physical_time(23, 0), physical_time(9, 31), physical_time(10, 0), physical_time(10, 31), physical_time(13, 31), physical_time(14, 55),
             physical_time(12, 0), physical_time(21, 1)] + [rnd.choice(night + dayb[1:]) for _ in range(4)]
    log = []

    class Stub(object):
        now = None

    class Ev(object):
        bar_dict = None

    def init(context):
        env = Environment.get_instance()
        sched = Scheduler("1m")
        stub = Stub()
        sched._ucontext = stub
        fired = []
        for i, tr in enumerate(rules):
            sched.run_daily((lambda i: (lambda c, b: fired.append((i, stub.now))))(i), time_rule=tr)
        try:
            sched._universe_change(Event(EVENT.POST_UNIVERSE_CHANGED, universe=[fid]))
            cal = S["cal"]
            for k in range(1, len(cal)):
                prev, day = cal[k - 1], cal[k]
                full = rnd.random() < 0.6
                nb = night if full else sorted(rnd.sample(night, rnd.randrange(1, 40)))
                db = dayb if full else sorted(rnd.sample(dayb, rnd.randrange(1, 60)))
                cdt = datetime.datetime.combine(prev, datetime.time(20, 55))
                tdt = datetime.datetime.combine(day, datetime.time(20, 55))
                env.update_time(cdt, tdt)
                stub.now = cdt
                del fired[:]
                sched.next_day_(Event(EVENT.PRE_BEFORE_TRADING, calendar_dt=cdt, trading_dt=tdt))
                sched.before_trading_(Event(EVENT.BEFORE_TRADING, calendar_dt=cdt, trading_dt=tdt))
                for m in nb:
                    stub.now = datetime.datetime.combine(prev, datetime.time(m // 60, m % 60))
                    env.update_time(stub.now, datetime.datetime.combine(day, datetime.time(m // 60, m % 60)))
                    sched.next_bar_(Ev())
                for m in db:
                    stub.now = datetime.datetime.combine(day, datetime.time(m // 60, m % 60))
                    env.update_time(stub.now, stub.now)
                    sched.next_bar_(Ev())
                per = {}
                for i, now in fired:
                    per.setdefault(i, []).append(now.hour * 60 + now.minute)
                log.append((day, nb + db, per, sched._start_minute, sorted(sched._trading_minute_range)))
        finally:
            sched._registry[:] = []
            env.update_time(None, None)
    res, exc = runner.run_real(S, dict(accounts={"future": 1e6}), {"init": init})
    if exc is not None:
        raise RuntimeError("night minute drive failed: %r" % (exc,))
    lines, meta = [], []
    for day, bars, per, start_minute, ranges in log:
        if start_minute != 1260 or ranges != [(541, 615), (631, 690), (811, 900), (1261, 1380)]:
            ctx.witness("C17.time", {"kind": "night_sessions_read_wrongly"}, "contract with trading hours 21:01-23:00,09:01-10:15,10:31-11:30,13:31-15:00: the scheduler's day starts at minute %s (the night session opens at 21:01, i.e. 1260) "
                        "with sessions %s" % (start_minute, ranges), {"day": str(day)})
            return
        for i, n in enumerate(rules):
            ctx.evaluations += 1
            got = per.get(i, [])
            inh = any(a <= n <= b for a, b in ranges)
            # specification (the code's catch-up rule): at the first bar at or after its minute within the same stretch of the day (evening: minutes after 21:00; day
            # session: a rule later than the first day bar); the very first day bar's own minute is the known blind spot of the wrap-around (not asserted)
            if n > 1260:
                later = [m for m in bars if m > 1260 and m >= n]
            else:
                later = [m for m in bars if m <= 1260 and m >= n]
            blind = n <= min([m for m in bars if m <= 1260] or [0]) or (n <= 1260 and not [m for m in bars if m <= 1260 and m < n])
            if n <= 1260 and blind:
                ctx.stats["night_minute_rules_in_the_wrap_around_blind_spot"] += 1
            else:
                want = [later[0]] if (inh and later) else []
                ctx.nontrivial("1m-night", "evening" if n > 1260 else "day", bool(want), len(bars) > 200)
                if got != want:
                    ctx.witness("C17.time", {"kind": "night_minute_time_rule", "evening_rule": n > 1260}, "night-trading contract, trading day %s: time rule %02d:%02d fired at bars %s; specification %s"
                                % (day, n // 60, n % 60, ["%02d:%02d" % (g // 60, g % 60) for g in got], ["%02d:%02d" % (g // 60, g % 60) for g in want]), {"time_rule": n, "bars": bars})
                    return
            lines.append("SCHTIME 0 %d %d %s 1 %s %s" % (start_minute, 2 * len(ranges), " ".join("%d %d" % r for r in ranges), n, " ".join(map(str, bars))))
            meta.append((day, n, got, bars))
    reps = vlib.ask_driver(lines) if ctx.driver_ok else []
    for (day, n, got, bars), rep in zip(meta, reps):
        t = rep.split()
        corr.add(t[0] == "0" and [int(x) for x in t[1:]] == got, {"time_rule": n, "day": str(day), "n_bars": len(bars), "impl": got, "model": rep, "night_session": True})
    ctx.stats["night_minute_rule_days"] += len(log)


def direct(ctx, c_bucket, c_civil, c_time):
    from rqalpha.environment import Environment
    from rqalpha.mod.rqalpha_mod_sys_scheduler.scheduler import Scheduler, market_open, market_close, physical_time
    rnd = random.Random(ctx.rnd.random())
    S = B.gen_market(rnd, ndays=rnd.randrange(30, 120), warm=0, n_stocks=1, with_future=False, opts={"kinds": ["CS"], "p_delist": 0, "p_split": 0, "p_div": 0,
                     "cal_start": datetime.date(rnd.choice([2019, 2020, 2021, 2023]), rnd.randrange(1, 13), rnd.randrange(1, 28))})
    cal = S["cal"]
    out = []

    def init(context):
        sched = Scheduler("1d")
        try:
            for d in cal:
                sched._today = d
                sched._fill_week()
                sched._fill_month()
                out.append((d, list(sched._this_week), list(sched._this_month)))
            for _ in range(60):
                h, m = rnd.randrange(0, 5), rnd.randrange(0, 60)
                out.append(("T", h, m, market_open(h, m), market_close(h, m), physical_time(h + 9, m)))
        finally:
            sched._registry[:] = []
    res, exc = runner.run_real(S, dict(accounts={"stock": 1e6}), {"init": init})
    if exc is not None:
        raise RuntimeError("direct scheduler calls failed: %r" % (exc,))
    calo = " ".join(str(d.toordinal()) for d in cal)
    lines, meta = [], []
    for rec in out:
        if rec[0] == "T":
            _, h, m, mo, mc, pt = rec
            lines += ["MOPEN %d %d" % (h, m), "MCLOSE %d %d" % (h, m), "PTIME %d %d" % (h + 9, m)]
            meta += [(c_time, str(mo), ("market_open", h, m)), (c_time, str(mc), ("market_close", h, m)), (c_time, str(pt), ("physical_time", h + 9, m))]
        else:
            d, wk, mo = rec
            ctx.evaluations += 1
            lines.append("SCHD %d %s WEEK %d" % (len(cal), calo, d.toordinal()))
            meta.append((c_bucket, " ".join(str(x.toordinal()) for x in wk), ("_fill_week", str(d))))
            lines.append("SCHD %d %s MONTH %d" % (len(cal), calo, d.toordinal()))
            meta.append((c_bucket, " ".join(str(x.toordinal()) for x in mo), ("_fill_month", str(d))))
            if wk != [x for x in cal if x.isocalendar()[:2] == d.isocalendar()[:2]] or mo != [x for x in cal if (x.year, x.month) == (d.year, d.month)]:
                ctx.witness("C17.bucket", {"kind": "bucket"}, "week/month bucket of %s is %s / %s" % (d, wk, mo), {"date": str(d)})
    # civil-date functions against datetime
    lo, hi = datetime.date(1990, 1, 1).toordinal(), datetime.date(2060, 12, 31).toordinal()
    ords = list(range(lo, hi + 1)) if ctx.tier == "thorough" else sorted(set(rnd.sample(range(lo, hi + 1), 1500) + [datetime.date(y, m, 1).toordinal() - k for y in range(1999, 2031) for m in (1, 2, 3, 12) for k in (0, 1)]))
    for o in ords:
        d = datetime.date.fromordinal(o)
        lines.append("CIVIL %d" % o)
        meta.append((c_civil, "%d %d %d %d %d" % (d.year, d.month, d.day, d.weekday(), o), ("civil", str(d))))
    reps = vlib.ask_driver(lines) if ctx.driver_ok else []
    for (corr, impl, case), rep in zip(meta, reps):
        corr.add(rep.strip() == impl, {"case": case, "impl": impl[:200], "model": rep[:200]})


def mixed_run(ctx, corr_u):
    """stock + futures accounts; a future with its own trading hours is subscribed (and later unsubscribed) during the run; daily
    rules at times inside/outside the stock session and inside/outside the future's sessions"""
    from rqalpha.environment import Environment
    rnd = random.Random(ctx.rnd.random())
    S = B.gen_market(rnd, ndays=rnd.randrange(9, 16), warm=1, n_stocks=1, with_future=True,
                     opts={"kinds": ["CS"], "p_delist": 0, "p_split": 0, "p_div": 0, "p_sus": 0, "p_limit": 0, "p_thin": 0, "n_futures": 1, "p_expire": 0})
    fut = S["futures"][0]["id"]
    hours = [(541, 615), (631, 690), (811, 900)]          # the bundle's "09:01-10:15,10:31-11:30,13:31-15:00"
    base = [(571, 690), (780, 900)]
    both = rnd.random() < 0.75
    accounts = {"stock": 1e7, "future": 1e7} if both else {"stock": 1e7}
    days = [d for d in S["cal"] if S["start"] <= d <= S["end"]]
    sub_i = rnd.choice([-1, 0, 1, 2, len(days) // 2])        # -1: in init
    unsub_i = rnd.choice([None, None, sub_i + 2, sub_i + 3]) if sub_i + 3 < len(days) else None
    times = [550, 571, 600, 620, 690, 700, 720, 790, 811, 850, 900, 905]
    fired = []
    state = {"universe_changed": False}

    def init(context):
        import rqalpha.api as api
        for t in times:
            api.scheduler.run_daily((lambda tt: (lambda c, b: fired.append((tt, c.now.date()))))(t), time_rule=api.physical_time(hour=t // 60, minute=t % 60))
        if sub_i == -1:
            api.subscribe(fut)

    def before_trading(context):
        import rqalpha.api as api
        i = days.index(context.now.date())
        if i == sub_i:
            api.subscribe(fut)
        if unsub_i is not None and i == unsub_i:
            api.unsubscribe(fut)

    res, exc = runner.run_real(S, dict(accounts=accounts), {"init": init, "before_trading": before_trading})
    if exc is not None:
        raise RuntimeError("mixed scheduler run failed: %r" % (exc,))
    got = set(fired)
    rp = {"accounts": sorted(accounts), "future": fut, "future_hours": hours, "subscribe_day": sub_i, "unsubscribe_day": unsub_i, "days": [str(d) for d in days]}
    lines, meta = [], []
    for i, d in enumerate(days):
        subscribed = (sub_i <= i) and (unsub_i is None or i < unsub_i)
        changed = sub_i <= i
        hs = [hours] if (subscribed and both) else []
        for t in times:
            ctx.evaluations += 1
            in_base = any(a <= t <= b for a, b in base)
            want = in_base or any(a <= t <= b for h in hs for a, b in h)
            have = (t, d) in got
            ctx.nontrivial("mixed", both, subscribed, t)
            if have != want:
                ctx.witness("C17.days", {"kind": "session_after_universe_change", "in_stock_session": in_base, "future_subscribed": subscribed},
                            "daily rule at %02d:%02d on %s (%s accounts, %s %s): %s, but that minute %s a trading minute (stock session%s)"
                            % (t // 60, t % 60, d, "+".join(sorted(accounts)), fut, "subscribed" if subscribed else "not subscribed", "fired" if have else "did not fire",
                               "is" if want else "is not", " + the future's hours" if hs else ""), rp)
            # model: ranges after the universe change (or the initial baseline), then the daily bar
            meta.append((have, t, d, changed, hs))
    if ctx.driver_ok:
        ur = {}
        for key_hs in ((), (tuple(hours),)):
            rep = vlib.ask_driver(["URANGES 1 0 %d %s" % (len(key_hs), " ".join("%d %s" % (2 * len(h), " ".join("%d %d" % r for r in h)) for h in key_hs))])[0].split()
            ur[key_hs] = (int(rep[0]), [int(x) for x in rep[1:]])
        for have, t, d, changed, hs in meta:
            start_m, rs = ur[tuple(tuple(h) for h in hs)] if changed else (0, [571, 690, 780, 900])
            lines.append("SCHTIME 1 %d %d %s 1 %d 900" % (start_m, len(rs), " ".join(map(str, rs)), t))
        reps = vlib.ask_driver(lines)
        for (have, t, d, changed, hs), rep in zip(meta, reps):
            m_fire = len(rep.split()) > 1
            corr_u.add(m_fire == have, {"minute": t, "day": str(d), "impl_fired": have, "model_fired": m_fire, "universe_changed": changed, "future_hours_counted": bool(hs)})
    ctx.stats["mixed_runs"] += 1
    ctx.stats["mixed_firings"] += len(fired)


def run(ctx):
    corr = ctx.corr("scheduler whole runs (1d)", "firing days and slots of every registered (day rule, time rule) in real daily runs vs model `nextDay/dayRuleHolds/dayFirings`")
    corr_t = None
    c_min = ctx.corr("Scheduler('1m') driven bar by bar", "real `_should_trigger/next_bar_/before_trading_` on generated bar sequences vs model `dayFirings`")
    c_bucket = ctx.corr("_fill_week/_fill_month", "real buckets on generated calendars vs model `fillWeek/fillMonth`")
    c_civil = ctx.corr("civil dates", "model `civilOfOrdinal/ordinalOfCivil/weekday` vs Python `datetime.date` (1990..2060: sampled in quick, exhaustive in thorough)")
    c_time = ctx.corr("market_open/market_close/physical_time", "real helper functions vs model")
    c_uni = ctx.corr("sessions after a universe change (1d)", "daily rules at minutes inside/outside the stock session and a subscribed future's sessions, real runs vs model `universeRanges` + `dayFirings`")
    for k in range(ctx.n(3, 60)):
        whole_run(ctx, corr, corr_t, year_end=(k % 3 == 0))
    for _ in range(ctx.n(6, 150)):
        mixed_run(ctx, c_uni)
    for _ in range(ctx.n(2, 40)):
        minute_drive(ctx, c_min)
    for _ in range(ctx.n(2, 30)):
        night_drive(ctx)
    for _ in range(ctx.n(2, 30)):
        night_minute_drive(ctx, c_min)
    import minute_stream
    minute_stream.stream(ctx, ctx.n(2, 40), [], sched_clause="C17.time")       # whole minute back-tests: the event source, the executor and the scheduler together
    for _ in range(ctx.n(2, 30)):
        direct(ctx, c_bucket, c_civil, c_time)


def replay(ctx, data):
    run(ctx)
    return "%d witnesses" % len(ctx.witnesses)

"""C19 — failure containment.  Correspondence: real runs with scripted probe mods (priorities, start/teardown behaviours) and a fault injected
at every kind of callback / event on any day (user raise, API user error, exception inside API code, system listener / data look-up) vs the
Lean model `runMain`: start order, teardown order and exit codes, returned value, callbacks executed.  Monitors: the same facts checked directly."""
import random, datetime
import vlib, bundle as B, runner

LEVEL = "proof"
RULE = ("3-5 probe mods with priorities from {50,100,100,150,30,0,-5} (0 = 'before everything', a falsy value) in random configuration order, teardown behaviours ok/raise/value, optional start-up failure; fault at a random "
        "callback (init, before_trading, open_auction, handle_bar, scheduled, after_trading, subscribed POST_BAR / TRADE handler) of a random day, of every origin, or no fault; "
        "non-trivial = run with a fault or a raising teardown; distinct = by (origin, callback kind, teardown pattern, priority pattern)")
TRUSTED = ["probe mods and the fault-injecting data source are harness code using rqalpha's mod / data-source extension points"]
ASSUMPTIONS = ["Python exception plumbing is modelled as control flow only (which handler runs, which exit code)"]

CALLBACKS = ["init", "before_trading", "open_auction", "handle_bar", "after_trading", "scheduled", "scheduled_before_trading", "post_bar_handler"]


class _HarnessStop(BaseException):
    pass


def one_run(ctx, corr):
    import probe_mods, fault_source
    from rqalpha.environment import Environment
    from rqalpha.core.events import EVENT
    rnd = random.Random(ctx.rnd.random())
    S = B.gen_market(rnd, ndays=rnd.randrange(3, 7), warm=1, n_stocks=1, with_future=False, opts={"kinds": ["CS"], "p_delist": 0, "p_split": 0, "p_div": 0, "p_sus": 0, "p_limit": 0, "p_thin": 0})
    stock = S["stocks"][0]["id"]
    nmods = rnd.randrange(3, 6)
    mods = []
    extra = {}
    start_fail = rnd.random() < 0.08
    for k in range(nmods):
        prio = rnd.choice([50, 100, 100, 150, 30, 0, -5])
        td = rnd.choice(["ok", "ok", "raise", "value", "value"])
        m = {"tag": k + 1, "prio": prio, "start": "raise" if (start_fail and k == rnd.randrange(nmods)) else "ok", "teardown": td, "value": 100 + k}
        mods.append(m)
        extra["rqvp%d" % (k + 1)] = {"enabled": True, "lib": "probe_mods", "priority": prio, "tag": k + 1, "start": m["start"], "teardown": td, "value": 100 + k}
    origin = rnd.choice(["none", "user", "user", "api_user", "api_user", "api_internal", "listener", "data"])
    arity_fault = rnd.choice([0, 0, 1, 2, 3])            # api_user faults: 0 = invalid argument / forbidden phase, 1-3 = a call with the wrong number of arguments
    fault_cb = rnd.choice(CALLBACKS)
    fault_occ = rnd.randrange(0, 3)         # on which occurrence of that callback
    if fault_cb == "init":
        fault_occ = 0
    if origin == "listener":
        lm = rnd.choice(list(extra))
        extra[lm]["listener_fault"] = rnd.choice(["PRE_BAR", "POST_BEFORE_TRADING", "PRE_AFTER_TRADING", "POST_OPEN_AUCTION", "SETTLEMENT"])
        extra[lm]["listener_fault_after"] = rnd.randrange(0, 2)
    # some runs persist on a crash (persist_mode on_crash, in-memory provider) and one of the probe mods is persistable with a get_state that fails then
    persist_on_crash = rnd.random() < 0.3
    base_extra = {}
    import persist_mod
    persist_mod.STORE.clear()          # (the in-memory store is per process: what an earlier crashed run persisted must not be restored into this one)
    persist_mod.RESUME[0] = False
    if persist_on_crash:
        base_extra = {"persist": True, "persist_mode": "on_crash"}
        extra["rqv_persist"] = {"enabled": True, "lib": "persist_mod", "priority": 10}
        pm = rnd.choice([k_ for k_ in extra if k_.startswith("rqvp")])
        extra[pm]["lib"] = "probe_mod_persist"
        extra[pm]["get_state"] = rnd.choice(["raise", "raise", "ok"])
    extra["rqvp1"]["record_events"] = True
    extra["rqvfault"] = {"enabled": True, "lib": "fault_source", "priority": 20}
    fault_source.FLAGS.clear()
    if origin == "data":
        days = [d for d in S["cal"] if S["start"] <= d <= S["end"]]
        fault_source.FLAGS["get_bar_raise_on"] = rnd.choice(days)
    calls = []
    seen = {}
    state = {"faulted": False}
    # what a strategy bug raises: an ordinary exception, or one outside the Exception hierarchy (sys.exit() in user code, a library's own BaseException)
    user_exc_kind = rnd.choice(["ValueError", "ValueError", "SystemExit", "BaseException"])
    user_exc = {"ValueError": ValueError("strategy bug injected by the harness"), "SystemExit": SystemExit(0),
                "BaseException": _HarnessStop("strategy bug injected by the harness")}[user_exc_kind]

    def hit(name):
        """called at the entry of every strategy callback"""
        calls.append(name)
        seen[name] = seen.get(name, 0) + 1
        if origin in ("user", "api_user", "api_internal") and name == fault_cb and seen[name] == fault_occ + 1 and not state["faulted"]:
            state["faulted"] = True
            probe_mods.LOG.append(("callback_fault", name))
            if origin == "user":
                raise user_exc
            import rqalpha.api as api
            if origin == "api_user":
                if name in ("init", "before_trading", "after_trading", "scheduled_before_trading"):
                    api.order_shares(stock, 100)            # refused in this phase: user error raised by the API
                elif arity_fault:
                    # a call with the wrong number of arguments: the strategy's mistake, whichever wrapper of the exported function notices it
                    {0: lambda: api.deposit("STOCK"), 1: lambda: api.get_open_orders(1, 2), 2: lambda: api.order_target_portfolio()}[arity_fault - 1]()
                else:
                    api.order_shares("NOPE.XSHE", 100)      # invalid argument: user error raised by the API
            else:
                fault_source.FLAGS["history_raise"] = True
                if name in ("init", "post_bar_handler"):
                    api.symbol("NOPE.XSHE")                         # an unmarked exception inside API code
                else:
                    api.history_bars(stock, 3, "1d", "close")       # the data source raises inside the API

    def init(context):
        import rqalpha.api as api
        api.subscribe_event(EVENT.POST_BAR, lambda c, e: hit("post_bar_handler"))
        api.scheduler.run_daily(lambda c, b: hit("scheduled"))
        api.scheduler.run_daily(lambda c, b: hit("scheduled_before_trading"), time_rule="before_trading")
        hit("init")
    def trade_then(name):
        def f(c, b):
            import rqalpha.api as api
            api.order_shares(stock, 100)                                         # fills at once
            api.order_shares(stock, 100, price_or_style=api.LimitOrder(round(b[stock].last * 0.985, 2)))   # may rest and fill later
            hit(name)
        return f
    handlers = {"init": init, "before_trading": lambda c: hit("before_trading"), "open_auction": trade_then("open_auction"),
                "handle_bar": trade_then("handle_bar"), "after_trading": lambda c: hit("after_trading")}
    del probe_mods.LOG[:]
    probe_mods.N[0] = 0
    res, exc = runner.run_real(S, dict(accounts={"stock": 1e6}, extra_mods=extra, base_extra=base_extra), handlers)
    log = list(probe_mods.LOG)
    fault_source.FLAGS.clear()
    ctx.evaluations += 1
    # ---- what the implementation did
    starts = [e[1] for e in log if e[0] == "start"]
    tds = [(e[1], e[2]) for e in log if e[0] == "teardown"]
    listener_fired = any(e[0] == "listener_fault" for e in log)
    codes = {c for _, c in tds}
    impl_code = codes.pop() if len(codes) == 1 else "MIXED:%s" % sorted(codes)
    impl_ret = None if res is None else sorted((int(k[4:]), v) for k, v in res.items() if k.startswith("rqvp"))
    # ---- the fault as the model sees it
    has_fault = state["faulted"] or listener_fired or (origin == "data" and exc is not None)
    model_origin = {"user": "user", "api_user": "api_user", "api_internal": "api_internal", "listener": "listener", "data": "listener"}.get(origin, "user")
    n_cb = len(calls)
    fi = max(0, n_cb - 1)
    line = "RUNCTL %d %d %d %s %d %s" % (n_cb if not has_fault else n_cb + 5, int(has_fault), fi, model_origin, 5 * len(mods),
                                        " ".join("%d %d %d %d %s" % (m["tag"], m["prio"], m["start"] == "raise", m["teardown"] == "raise", (m["value"] if m["teardown"] == "value" else "-")) for m in mods))
    any_start_fail = any(m["start"] == "raise" for m in mods)
    rp = {"mods": mods, "persist_on_crash": persist_on_crash, "origin": origin, "raises": user_exc_kind if origin == "user" else None, "fault_callback": fault_cb, "occurrence": fault_occ, "callbacks_run": len(calls)}
    if ctx.driver_ok:
        rep = vlib.ask_driver([line])[0].split()
        m_code, m_ret, m_log = rep[0], rep[1], rep[2:]
        m_starts = [int(x[1:]) for x in m_log if x.startswith("S")]
        m_tds = [(int(x[1:].split(":")[0]), x.split(":")[1]) for x in m_log if x.startswith("T")]
        m_cbs = len([x for x in m_log if x.startswith("C")])
        impl_ret_s = "NONE" if impl_ret is None else "RET[" + ",".join("%d=%d" % kv for kv in sorted(impl_ret, key=lambda kv: [t for t, _ in m_tds].index(kv[0]))) + "]"
        ok = starts == m_starts and tds == m_tds and impl_code == m_code and impl_ret_s == m_ret and (any_start_fail or m_cbs == n_cb)
        corr.add(ok, {"mods": mods, "origin": origin, "fault": [fault_cb, fault_occ], "impl": {"starts": starts, "teardowns": tds, "returned": impl_ret_s, "callbacks": n_cb},
                      "model": {"starts": m_starts, "teardowns": m_tds, "returned": m_ret, "callbacks": m_cbs, "code": m_code}})
    # ---- monitors
    order = sorted(range(len(mods)), key=lambda k: mods[k]["prio"])          # stable
    want_starts = [mods[k]["tag"] for k in order]
    if any_start_fail:
        f = next(i for i, k in enumerate(order) if mods[k]["start"] == "raise")
        want_starts = want_starts[:f + 1]
    if starts != want_starts:
        ctx.witness("C19.1", {"kind": "start_order"}, "mods started %s, priority order is %s" % (starts, want_starts), rp)
    if calls and any_start_fail:
        ctx.witness("C19.1", {"kind": "strategy_ran_after_startup_failure"}, "a mod's start_up failed but %d strategy callbacks ran" % len(calls), rp)
    want_td = [mods[k]["tag"] for k in reversed(order)]
    if [t for t, _ in tds] != want_td:
        ctx.witness("C19.2", {"kind": "teardown_order"}, "mods torn down %s, reverse start order is %s" % ([t for t, _ in tds], want_td), rp)
    want_code = "EXIT_SUCCESS"
    if any_start_fail or (has_fault and origin in ("api_internal", "listener", "data")):
        want_code = "EXIT_INTERNAL_ERROR"
    elif has_fault:
        want_code = "EXIT_USER_ERROR"
    if impl_code != want_code:
        ctx.witness("C19.3", {"kind": "exit_code", "origin": origin, "callback": fault_cb if origin in ("user", "api_user", "api_internal") else None},
                    "fault origin %s in %s: teardown got %s, expected %s" % (origin, fault_cb, impl_code, want_code), rp)
    if want_code != "EXIT_SUCCESS" and res is not None:
        ctx.witness("C19.3", {"kind": "failed_run_returns_report"}, "a failed run (%s) returned %r" % (impl_code, res), rp)
    if want_code == "EXIT_SUCCESS":
        want_ret = sorted((m["tag"], m["value"]) for m in mods if m["teardown"] == "value")
        if impl_ret != want_ret:
            ctx.witness("C19.2", {"kind": "returned_values"}, "successful run returned %r, the mods' teardown values are %r" % (impl_ret, want_ret), rp)
    if state["faulted"]:
        idx = len(calls) - 1
        if calls[idx] != fault_cb:
            ctx.witness("C19.4", {"kind": "callback_after_fault"}, "callbacks %s ran after the faulting %s" % (calls[idx:], fault_cb), rp)
    marks = [i for i, e in enumerate(log) if e[0] in ("callback_fault", "listener_fault", "data_fault")]
    if marks:
        later = [e[1] for e in log[marks[0] + 1:] if e[0] == "event"]
        if later:
            ctx.witness("C19.4", {"kind": "events_after_fault", "events": sorted(set(later))[:4]}, "after the fault (%s) the run still published %s" % (log[marks[0]], later[:8]), rp)
        ctx.stats["events_checked_after_fault"] += 1
    ctx.nontrivial(origin, persist_on_crash, user_exc_kind if origin == "user" else None, fault_cb if state["faulted"] else None, tuple(m["teardown"] for m in mods), tuple(m["prio"] for m in mods), any_start_fail)
    ctx.stats["runs_" + origin] += 1
    ctx.stats["faults_fired"] += int(has_fault)
    ctx.sample({"mods": [(m["tag"], m["prio"], m["teardown"]) for m in mods], "origin": origin, "fault": fault_cb, "starts": starts, "teardowns": tds, "callbacks_run": len(calls)})


def run(ctx):
    corr = ctx.corr("run control", "start order, teardown order with exit codes, returned value and number of callbacks of real runs with probe mods and injected faults vs model `runMain`")
    for _ in range(ctx.n(120, 4000)):
        one_run(ctx, corr)


def replay(ctx, data):
    run(ctx)
    return "%d witnesses" % len(ctx.witnesses)

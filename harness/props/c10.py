"""C10 — positions never negative.  Step-sync of position-changing operations and of the position validator against the Lean
model; monitors: quantities >= 0, old quantity within range, T+1, rejected closes change nothing."""
import random
import bundle as B
import tstream, monitors, sync_misc
LEVEL = "proof"
RULE = ("daily runs with buys/sells/closes within and across days, resting closing orders, splits between buy and sell, both directions of futures, "
        "T+1 on/off, sells of exactly the holding / more than the holding; non-trivial = quantity-changing operation or position-validator decision; "
        "distinct = by (operation, branch, veto)")
TRUSTED = ["harness wraps Account methods and PositionValidator.validate_submission at run time"]
ASSUMPTIONS = ["orders are day orders: nothing rests across before_trading (the invariants that need it say so)"]


def run(ctx):
    corrs = tstream.make_corrs(ctx, ops=["apply_trade", "_on_before_trading", "_on_settlement"])
    vc = {"position": ctx.corr("PositionValidator", "every recorded decision of the real position validator vs model `positionVeto` on the same order and closable quantities"),
          "closable": ctx.corr("closable / today_closable", "the real position's closable and today_closable at every validation vs model `posClosable/posTodayClosable` from the position's fields and the open closing orders")}
    def gen(rnd, k):
        import bundle as B, trading
        S = B.gen_market(rnd, ndays=rnd.randrange(10, 26), with_future=True if (k % 5 == 2 or k % 4 == 1) else None, opts={"p_div": 1.0, "p_split": 0.2, "p_delist": 0.05} if k % 4 == 3 else None)
        S["_plan_generic_close"] = True       # only this check's stream runs the scenarios of the repaired finding F12 (a CLOSE reaching into today's lots + a CLOSE_TODAY resting together)
        cfgk = trading.gen_config(rnd, S, {"p_init_pos": 0.2, "pos_roundtrip": True, "fut_plan": "split_close" if (k % 4 == 1 and S["futures"]) else None,
                                             "sell_on_payable": k % 4 == 3, "p_reinvest": 1.0 if k % 4 == 3 else 0.25})
        # the two position-validation switches are independent: one of them off must not silence the other
        sw = rnd.random()
        if sw < 0.2:
            cfgk["accounts_mod"]["validate_future_position"] = False
        elif sw < 0.45 or k % 5 == 2:
            cfgk["accounts_mod"]["validate_stock_position"] = False
        return S, cfgk
    tstream.stream(ctx, ctx.n(60, 3000), corrs, [monitors.c10_monitor], gen=gen, extra_sync=lambda c, tr, ix: sync_misc.validators_sync(c, vc, tr, ix))
    for _ in range(ctx.n(3, 40)):
        midday_resume(ctx)


def midday_resume(ctx):
    """a back-test dies inside trading day T AFTER buying; its state is persisted on the crash and the run is resumed with start_date = T: for the rest of T the shares
    bought on T stay locked (T+1) — the resumed run must not go through the morning of T again (which would release the lock)"""
    import persist_mod, runner
    rnd = random.Random(ctx.rnd.random())
    S = B.gen_market(rnd, ndays=rnd.randrange(5, 8), n_stocks=1, with_future=False, opts={"kinds": ["CS"], "p_delist": 0, "p_split": 0, "p_div": 0, "p_sus": 0, "p_thin": 0, "p_limit": 0})
    oid = S["stocks"][0]["id"]
    days = [d for d in S["cal"] if S["start"] <= d <= S["end"]]
    T = days[rnd.randrange(1, len(days) - 1)]
    q = rnd.choice([100, 500, 1000])
    cfg = dict(accounts={"stock": 1e6}, accounts_mod={"stock_t1": True}, sim={"volume_limit": False, "slippage": 0}, base_extra={"persist": True, "persist_mode": "on_crash"},
               extra_mods={"rqv_persist": {"enabled": True, "lib": "persist_mod"}})
    persist_mod.STORE.clear()
    persist_mod.RESUME[0] = False
    log = []

    def init(context):
        pass

    def hb1(context, bar_dict):
        import rqalpha.api as api
        if context.now.date() == T:
            o = api.order_shares(oid, q)
            log.append(("buy", None if o is None else o.status.name, 0 if o is None else o.filled_quantity))
            raise ValueError("crash after the purchase (injected by the harness)")
    try:
        with runner.bundle_dir(S) as p:
            runner.run_real(S, cfg, {"init": init, "handle_bar": hb1}, path=p)
            if not log or log[0][2] != q or "portfolio" not in persist_mod.STORE:
                ctx.stats["midday_resume_runs_without_purchase"] += 1
                return
            persist_mod.RESUME[0] = True

            def hb2(context, bar_dict):
                import rqalpha.api as api
                pp = api.get_position(oid)
                if context.now.date() == T:
                    log.append(("resumed", pp.quantity, pp.closable))
                    o = api.order_shares(oid, -q)
                    log.append(("sell", None if o is None else o.status.name, 0 if o is None else o.filled_quantity, api.get_position(oid).quantity))

            def bt2(context):
                log.append(("before_trading", context.now.date()))
            _, exc2 = runner.run_real(S, dict(cfg, start=T), {"init": init, "handle_bar": hb2, "before_trading": bt2}, path=p)
    finally:
        persist_mod.STORE.clear()
        persist_mod.RESUME[0] = False
    ctx.evaluations += 1
    ctx.stats["midday_resume_runs"] += 1
    ctx.nontrivial("midday_resume", q)
    rp = {"scenario": "midday_resume", "day": str(T), "quantity": q, "log": [str(x) for x in log]}
    res = next((x for x in log if x[0] == "resumed"), None)
    sell = next((x for x in log if x[0] == "sell"), None)
    if exc2 is not None or res is None:
        ctx.stats["midday_resume_runs_not_resumed"] += 1
        return
    if res[1] != q or res[2] != 0 or (sell is not None and (sell[2] or sell[3] != q)):
        ctx.witness("C10.2", {"kind": "t_plus_one_after_midday_resume"}, "bought %s of %s on %s, the run died in that bar and was resumed on the same day: the resumed run sees quantity %s closable %s "
                    "(T+1: 0 closable), a sale of %s on that day: %s; before_trading callbacks of the resumed run: %s"
                    % (q, oid, T, res[1], res[2], q, sell, [str(x[1]) for x in log if x[0] == "before_trading"][:3]), rp)


def replay(ctx, data):
    run(ctx)
    return "%d witnesses" % len(ctx.witnesses)

"""C10 — positions never negative.  Step-sync of position-changing operations and of the position validator against the Lean
model; monitors: quantities >= 0, old quantity within range, T+1, rejected closes change nothing."""
import tstream, monitors, sync_misc
LEVEL = "proof"
RULE = ("daily runs with buys/sells/closes within and across days, resting closing orders, splits between buy and sell, both directions of futures, "
        "T+1 on/off, sells of exactly the holding / more than the holding; non-trivial = quantity-changing operation or position-validator decision; "
        "distinct = by (operation, branch, veto)")
TRUSTED = ["harness wraps Account methods and PositionValidator.validate_submission at run time"]
ASSUMPTIONS = ["orders are day orders: nothing rests across before_trading (the invariants that need it say so)"]


def run(ctx):
    corrs = tstream.make_corrs(ctx, ops=["apply_trade", "_on_before_trading", "_on_settlement"])
    vc = {"position": ctx.corr("PositionValidator", "every recorded decision of the real position validator vs model `positionVeto` on the same order and closable quantities"),
          "closable": ctx.corr("closable / today_closable", "the real position's closable and today_closable at every validation vs model `posClosable/posTodayClosable` from the position's fields and the open closing orders")}
    def gen(rnd, k):
        import bundle as B, trading
        S = B.gen_market(rnd, ndays=rnd.randrange(10, 26), with_future=True if k % 5 == 2 else None)
        S["_plan_generic_close"] = True       # only this check's stream runs the scenarios of the repaired finding F12 (a CLOSE reaching into today's lots + a CLOSE_TODAY resting together)
        cfgk = trading.gen_config(rnd, S, {"p_init_pos": 0.2, "pos_roundtrip": True})
        # the two position-validation switches are independent: one of them off must not silence the other
        sw = rnd.random()
        if sw < 0.2:
            cfgk["accounts_mod"]["validate_future_position"] = False
        elif sw < 0.45 or k % 5 == 2:
            cfgk["accounts_mod"]["validate_stock_position"] = False
        return S, cfgk
    tstream.stream(ctx, ctx.n(60, 3000), corrs, [monitors.c10_monitor], gen=gen, extra_sync=lambda c, tr, ix: sync_misc.validators_sync(c, vc, tr, ix))


def replay(ctx, data):
    run(ctx)
    return "%d witnesses" % len(ctx.witnesses)

"""C16 — pre-trade validation.  Correspondence: for every order created in real runs under random validator switch combinations the
whole chain's decision (which validator vetoes first, or pass) vs the Lean model `validate`, with listing / suspension / limit-band inputs
from the BUNDLE.  Monitors: an order that meets a listed rejection condition is rejected with a creation-reject event, without raising and
without any change to accounts or books; an order meeting none is submitted; wrong arguments raise a user-facing error and change nothing."""
import random, datetime, math
import vlib, tstream, monitors, acct_sync, sync_misc, bundle as B, trading, runner
from vlib import f2b, of2b

LEVEL = "proof"
RULE = ("daily runs where the scripted strategy orders every instrument on every day relative to listing, suspension and delisting, limit prices at the band edges "
        "+- one tick and +- 1e-5, amounts around cash and around the closable holding, under every combination of the five validator switches; plus a malformed stream "
        "(unknown instrument, NaN limit price, calls in forbidden phases); one evaluation = one created order or malformed call; non-trivial = vetoed order or refused call; "
        "distinct = by (first vetoing validator, switches, effect)")
TRUSTED = ["harness wraps the validators' validate_submission at run time to record each decision with the inputs it read"]
ASSUMPTIONS = ["the generic submit_order accepts SELL+OPEN on a stock (finding F24): proved/monitored for effects consistent with the instrument type",
               "`round(limit, 4)` of the price validator is an input of the model (Python's float rounding is not modelled)"]


def gen(rnd, k):
    S = B.gen_market(rnd, ndays=rnd.randrange(10, 22), opts={"p_sus": 0.12, "p_delist": 0.4, "p_limit": 0.3})
    S["_probe_validators"] = True
    cfgk = trading.gen_config(rnd, S, {"no_signal": True})
    cfgk["risk"] = {"validate_price": rnd.random() < 0.75, "validate_is_trading": rnd.random() < 0.75, "validate_cash": rnd.random() < 0.75,
                    "validate_self_trade": rnd.random() < 0.3}
    cfgk["accounts_mod"]["validate_stock_position"] = rnd.random() < 0.8
    cfgk["accounts_mod"]["validate_future_position"] = rnd.random() < 0.8
    return S, cfgk


def market_facts(ix, oid, day):
    s, f = ix.stock.get(oid), ix.fut.get(oid)
    d8v = B.d8(day)
    if s is not None:
        listed = (s["listed"] <= day) and not (s["delisted"] is not None and day >= s["delisted"])
        return {"is_index": False, "is_cs": s["type"] == "CS", "listed": listed, "suspended": d8v in ix.S["sus"].get(oid, [])}
    listed = not (f["expire"] is not None and day > f["expire"])
    return {"is_index": False, "is_cs": False, "listed": listed, "suspended": False}


def chain_sync(ctx, corr, tr, ix):
    risk = tr.cfg.get("risk") or {}
    am = tr.cfg["accounts_mod"]
    rp = monitors.replay_of(tr)
    by_order = {}
    order_seq = []
    for v in tr.rec.validations:
        oid = v["order"]["id"]
        if oid not in by_order:
            by_order[oid] = []
            order_seq.append(oid)
        by_order[oid].append(v)
    pending = {e["order"]["id"] for k, e in tr.events if k == "ORDER_PENDING_NEW"}
    lines, meta = [], []
    for oid in order_seq:
        vs = by_order[oid]
        o = vs[0]["order"]
        book = o["book"]
        if book not in ix.ids or o["effect"] not in ("OPEN", "CLOSE", "CLOSE_TODAY") or o["frozen_price"] != o["frozen_price"]:
            continue
        ctx.evaluations += 1
        is_fut = book in ix.fut
        sw_pos = am.get("validate_future_position" if is_fut else "validate_stock_position", True)
        sw = [sw_pos, risk.get("validate_price", True), risk.get("validate_is_trading", True), risk.get("validate_cash", True), risk.get("validate_self_trade", False)]
        day = vs[0]["when"][1].date()
        mf = market_facts(ix, book, day)
        bar = ix.bar(book, B.d8(day))
        lu = round(bar[7], 4) if bar is not None and bar[7] == bar[7] else None
        ld = round(bar[8], 4) if bar is not None and bar[8] == bar[8] else None
        inp = {v["validator"]: v["inputs"] for v in vs}
        cl = inp.get("position", {}).get("closable", 0)
        tcl = inp.get("position", {}).get("today_closable", 0)
        oc = inp.get("cash", {}).get("order_cost", 0.0)
        cash = inp.get("cash", {}).get("cash", 0.0)
        if cash is None:
            cash = 0.0
        opp = [p for t, p in inp.get("self_trade", {}).get("opposite", [])]
        opp_has_market = any(t == "MARKET" for t, p in inp.get("self_trade", {}).get("opposite", []))
        impl_first = next((v["validator"] for v in vs if v["veto"]), None)
        impl = {None: "PASS", "position": "position", "price": "price", "is_trading": "trading", "cash": "cash", "self_trade": "selfTrade"}[impl_first]
        line = "VCHAIN " + " ".join([str(int(bool(x))) for x in sw] + ix.cfg_toks(book) + sync_misc.order_toks(o) +
                                    ["0", str(int(mf["is_cs"])), str(int(mf["listed"])), str(int(mf["suspended"])), of2b(lu), of2b(ld),
                                     str(int(cl)), str(int(tcl)), f2b(oc), f2b(cash), str(len(opp))] + [f2b(p) for p in opp])
        lines.append(line)
        meta.append((o, impl, sw, vs, mf, (lu, ld), oid in pending))
        # ---- monitor (independent of the model): the listed conditions, in chain order
        want = None
        if sw[0] and o["effect"] != "OPEN" and "position" in inp and inp["position"]:
            if (o["effect"] == "CLOSE" and o["qty"] > cl) or (o["effect"] == "CLOSE_TODAY" and o["qty"] > tcl):
                want = "position"
        if want is None and sw[1] and o["is_limit"] and ((lu is not None and o["price"] > lu) or (ld is not None and o["price"] < ld)):
            want = "price"
        if want is None and sw[2] and ((not mf["listed"]) or (mf["is_cs"] and mf["suspended"])):
            want = "trading"
        if want is None and sw[3] and o["effect"] == "OPEN" and "cash" in inp:
            f = ix.fut.get(book)
            mm = (tr.cfg.get("base_extra") or {}).get("margin_multiplier", 1)
            cost = o["frozen_price"] * o["qty"] * (f["mult"] * f["info"]["margin_rate"] * mm if f else 1) + oc
            if cost > cash + 1e-9:
                want = "cash"
            elif abs(cost - cash) <= 1e-9:
                want = impl if impl in ("cash", "PASS") else None
        if want is None and sw[4]:
            want = impl if impl in ("selfTrade", "PASS") else "PASS"
        if want is None:
            want = "PASS"
        ctx.nontrivial(impl, tuple(sw), o["effect"], is_fut)
        ctx.stats["chain_" + impl] += 1
        if impl != want:
            ctx.witness("C16.1", {"kind": "wrong_decision", "expected": want, "got": impl}, "%s %s %s x %s (limit %s) on %s with switches %s: decision %s, the listed conditions say %s (listed %s, suspended %s, band [%s, %s], closable %s, cash %r)"
                        % (book, "BUY" if o["is_buy"] else "SELL", o["effect"], o["qty"], o["price"] if o["is_limit"] else None, day, sw, impl, want, mf["listed"], mf["suspended"], ld, lu, cl, cash), rp)
        if oid in tr.probe_orders:
            ctx.stats["chain_asked_directly"] += 1
            ctx.stats["chain_asked_directly_unlisted"] += int(not mf["listed"])
        elif (impl == "PASS") != (oid in pending):
            ctx.witness("C16.1", {"kind": "decision_vs_submission", "got": impl}, "order %s: chain decision %s but %s" % (oid % 100000, impl, "it reached the broker" if oid in pending else "it never reached the broker"), rp)
    if lines and ctx.driver_ok:
        reps = vlib.ask_driver(lines)
        for (o, impl, sw, vs, mf, band, _), rep in zip(meta, reps):
            m = rep.strip()
            m = {"priceUp": "price", "priceDown": "price", "notListed": "trading", "suspended": "trading"}.get(m, m)
            corr.add(m == impl, {"order": o, "switches": sw, "market": mf, "band": band, "impl": impl, "model": rep.strip(), "when": str(vs[0]["when"][0])})


def reject_frame_monitor(ctx, tr, ix):
    """a call that ends with creation-reject events only: no exception, accounts / reserved cash / positions / books unchanged"""
    rp = monitors.replay_of(tr)
    rejects = collections_counter(tr)
    for c in tr.calls:
        if c["api"] in ("deposit", "withdraw", "finance", "repay", "cancel_order", "combo_buy_rest_sell", "combo_future_close", "combo_auction_two_fill", "combo_auction_cancel", "plan_future_open", "plan_future_split_close", "plan_future_generic_close", "plan_future_close_today_twice", "plan_cash_edge", "plan_future_cash_edge"):
            continue
        ctx.evaluations += 1
        if c["api"] == "submit_order_no_bar":
            # an instrument without a bar today has no valid price: whatever the order type, the order must be refused at creation, with no side effect
            ctx.stats["submit_order_calls_without_market_data"] += 1
            changed = any(acct_sync.diff_state(dict(c["before"][t]), dict(c["after"][t])) for t in c["before"])
            if c["orders"] or changed or c["open_before"] != c["open_after"]:
                ctx.witness("C16.1", {"kind": "order_without_market_data_accepted", "api": "submit_order"},
                            "submit_order(%s, 100, BUY, price=%r) on %s, a day without a bar for the instrument: returned %s, account changed: %s, open orders %s -> %s"
                            % (c["args"][0], c["args"][2], c["when"].date(), [(o["status"], o["qty"]) for o in c["orders"]], changed, len(c["open_before"]), len(c["open_after"])), rp)
            continue
        accepted = [o for o in c["orders"] if o["status"] != "REJECTED" or o["filled"]]
        lo, hi = c.get("val_range", (0, 0))
        vetoed = [v for v in tr.rec.validations[lo:hi] if v["veto"]]
        if vetoed and not accepted and not c["orders"]:
            if c["exc"] is not None:
                ctx.witness("C16.2", {"kind": "veto_raises", "api": c["api"]}, "%s%r: the order was vetoed by the %s validator and the call raised %s" % (c["api"], c["args"], vetoed[0]["validator"], c["exc"]), rp)
            for t in c["before"]:
                d = acct_sync.diff_state(dict(c["before"][t]), dict(c["after"][t]))
                if d:
                    ctx.witness("C16.2", {"kind": "veto_changes_account", "api": c["api"], "validator": vetoed[0]["validator"]},
                                "%s%r vetoed by the %s validator changed the %s account: %s" % (c["api"], c["args"], vetoed[0]["validator"], t, [(p, m, v) for p, m, v in d[:3]]), rp)
            if c["open_before"] != c["open_after"]:
                ctx.witness("C16.2", {"kind": "veto_changes_books", "api": c["api"]}, "%s%r vetoed but the open orders changed" % (c["api"], c["args"]), rp)
            ctx.stats["vetoed_calls_checked"] += 1


def collections_counter(tr):
    import collections
    c = collections.Counter()
    for k, e in tr.events:
        if k == "ORDER_CREATION_REJECT":
            c[e.get("book")] += 1
    return c


def malformed(ctx, corr):
    """wrong arguments: unknown instrument, NaN limit price, forbidden phase -> user-facing error, nothing changes"""
    from rqalpha.environment import Environment
    from rqalpha.utils.exception import RQInvalidArgument, is_user_exc
    import recorder
    rnd = random.Random(ctx.rnd.random())
    S = B.gen_market(rnd, ndays=5, warm=1, n_stocks=2, with_future=True, opts={"kinds": ["CS"], "p_delist": 0, "p_split": 0, "p_div": 0, "p_sus": 0, "n_futures": 1, "p_expire": 0})
    stock, fut = S["stocks"][0]["id"], S["futures"][0]["id"]
    obs = []

    def snap(context):
        env = Environment.get_instance()
        return ({t: recorder.snap_account(a) for t, a in context.portfolio.accounts.items()}, [o.order_id for o in env.broker.get_open_orders()])

    def probe(context, where):
        import rqalpha.api as api
        from rqalpha.model.order import LimitOrder
        from rqalpha.const import SIDE
        nan = float("nan")
        cases = [("unknown instrument", lambda: api.order_shares("999999.XSHE", 100)),
                 ("unknown instrument", lambda: api.order_value("NOPE", 1000)),
                 ("unknown instrument", lambda: api.buy_open("XX9999", 1)),
                 ("unknown instrument", lambda: api.submit_order("999999.XSHE", 100, SIDE.BUY)),
                 ("NaN limit price", lambda: api.order_shares(stock, 100, price_or_style=LimitOrder(nan))),
                 ("NaN limit price", lambda: api.order_value(stock, 5000, price_or_style=LimitOrder(nan))),
                 ("NaN limit price", lambda: api.buy_open(fut, 1, price_or_style=LimitOrder(nan))),
                 ("non-number amount", lambda: api.order_shares(stock, "many")),
                 ("non-number amount", lambda: api.order_percent(stock, None))]
        for label, f in cases:
            before = snap(context)
            ctx.evaluations += 1
            try:
                r = f()
                out = ("returned", repr(r)[:60])
            except Exception as ex:
                out = ("raised", type(ex).__name__, bool(is_user_exc(ex)) or isinstance(ex, RQInvalidArgument))
            after = snap(context)
            obs.append((label, where, out, before, after))

    def phase_probe(context, where):
        import rqalpha.api as api
        before = snap(context)
        ctx.evaluations += 1
        try:
            r = api.order_shares(stock, 100)
            out = ("returned", repr(r)[:60])
        except Exception as ex:
            out = ("raised", type(ex).__name__, bool(is_user_exc(ex)))
        obs.append(("forbidden phase", where, out, before, snap(context)))

    def init(context):
        import rqalpha.api as api
        # code scheduled for the before-trading slot is before-trading code wherever the scheduler runs it; init itself is a forbidden phase too
        api.scheduler.run_daily(lambda c, b: phase_probe(c, "function scheduled with time_rule='before_trading'"), time_rule="before_trading")
        phase_probe(context, "init")

    res, exc = runner.run_real(S, dict(accounts={"stock": 1e6, "future": 1e6}),
                               {"init": init, "before_trading": lambda c: phase_probe(c, "before_trading"),
                                "handle_bar": lambda c, b: probe(c, "handle_bar"), "open_auction": lambda c, b: probe(c, "open_auction"),
                                "after_trading": lambda c: phase_probe(c, "after_trading")})
    if exc is not None:
        raise RuntimeError("malformed stream run failed: %r" % (exc,))
    for label, where, out, before, after in obs:
        ctx.nontrivial("malformed", label, where, out[0])
        ctx.stats["malformed_calls"] += 1
        ok_frame = before[1] == after[1] and all(not acct_sync.diff_state(dict(before[0][t]), dict(after[0][t])) for t in before[0])
        if out[0] != "raised" or not out[2]:
            ctx.witness("C16.3", {"kind": "bad_argument_not_user_error", "what": label}, "%s in %s: %s (a user-facing error is expected)" % (label, where, out), {"label": label, "where": where})
        if not ok_frame:
            ctx.witness("C16.3", {"kind": "bad_argument_changes_state", "what": label}, "%s in %s changed accounts or open orders" % (label, where), {"label": label, "where": where})
        corr.add(out[0] == "raised" and ok_frame, {"case": label, "where": where, "outcome": out})


def inconsistent_effect(ctx):
    """generic submit_order with an effect that contradicts the instrument type: SELL + OPEN on a stock"""
    from rqalpha.environment import Environment
    rnd = random.Random(ctx.rnd.random())
    S = B.gen_market(rnd, ndays=5, warm=1, n_stocks=1, with_future=False, opts={"kinds": ["CS"], "p_delist": 0, "p_split": 0, "p_div": 0, "p_sus": 0, "p_limit": 0, "p_thin": 0})
    stock = S["stocks"][0]["id"]
    out = {}

    def hb(context, bar_dict):
        import rqalpha.api as api
        from rqalpha.const import SIDE, POSITION_EFFECT
        if "done" in out:
            return
        out["done"] = True
        try:
            o = api.submit_order(stock, 100, SIDE.SELL, position_effect=POSITION_EFFECT.OPEN)
            out["order"] = None if o is None else (o.status.name, o.filled_quantity)
            p = context.portfolio.accounts["STOCK"].get_position(stock, __import__("rqalpha.const", fromlist=["POSITION_DIRECTION"]).POSITION_DIRECTION.SHORT)
            out["short_qty"] = p.quantity
        except Exception as ex:
            out["exc"] = type(ex).__name__
    res, exc = runner.run_real(S, dict(accounts={"stock": 1e6}), {"init": lambda c: None, "handle_bar": hb})
    ctx.evaluations += 1
    ctx.nontrivial("inconsistent_effect", out.get("order"), exc is not None)
    if out.get("order") is not None and out["order"][0] != "REJECTED":
        ctx.witness("C16.3", {"kind": "stock_sell_open_accepted"}, "submit_order(%s, 100, SELL, position_effect=OPEN) was accepted (%s): short stock quantity %s; run ended with %r"
                    % (stock, out["order"], out.get("short_qty"), exc), {"stock": stock})


def run(ctx):
    inconsistent_effect(ctx)
    corr = ctx.corr("validator chain", "first vetoing validator (or pass) for every order created in real runs under random switch combinations vs model `validate` with bundle-derived listing/suspension/band inputs")
    corr_m = ctx.corr("malformed calls", "unknown instrument / NaN limit price / non-number amount / forbidden phase: the real API raises a user-facing error and changes nothing (model: such calls have no transition)")
    for _ in range(ctx.n(2, 20)):
        malformed(ctx, corr_m)
    def position_rules(c, tr, ix):
        """the position validator's purpose, checked on the outcome: no quantity below zero, no sale of shares bought today (T+1) — the C10 monitor under this property's clause"""
        orig = c.witness

        def w(clause, sig, what, rp_):
            return orig("C16.1", dict(sig, rule=clause), what, rp_)
        c.witness = w
        try:
            monitors.c10_monitor(c, tr, ix)
        finally:
            c.witness = orig
    import sync_misc
    vc = {"position": ctx.corr("PositionValidator", "every recorded decision of the real position validator vs model `positionVeto` on the same order and closable quantities"),
          "closable": ctx.corr("closable / today_closable", "what the position validator is told can be closed vs model `posClosable/posTodayClosable` from the position's fields and the open closing orders")}

    def both(c, tr, ix):
        chain_sync(c, corr, tr, ix)
        sync_misc.validators_sync(c, vc, tr, ix)
    tstream.stream(ctx, ctx.n(60, 3000), None, [reject_frame_monitor, position_rules], gen=gen, extra_sync=both)


def replay(ctx, data):
    run(ctx)
    return "%d witnesses" % len(ctx.witnesses)

"""C05 — fill prices.  Step-sync of every matcher call against the Lean model with the prescribed price taken from the BUNDLE;
monitor: every trade's price recomputed from the bundle bar, the matching rule and the slippage model."""
import tstream, monitors, match_sync
LEVEL = "proof"
RULE = ("daily runs, matching types current_bar/vwap, auction and bar orders, all three slippage models and rates {0, 0.002, 0.01, 1 tick}, limit == reference, reference at/over "
        "the limits, missing and zero-turnover bars; one evaluation = one trade or matcher call; non-trivial = fill; distinct = by (type, effect, auction, outcome)")
TRUSTED = ["harness wraps DefaultBarMatcher.match; reference prices come from the generated bundle, not from rqalpha's price board"]
ASSUMPTIONS = ["minute frequency / next_bar matching only through the free-running world correspondence (the price monitor is daily)",
               "TickSizeSlippage does not clamp to the band (F20); LimitPriceSlippage crashes on opening orders (F22); an auction order can be re-matched at the close (F18)"]


def user_limit_monitor(ctx, tr, ix):
    """the limit the CALLER gave is the limit the order carries and the bound on every fill of it (order_target_portfolio hands
    one limit per instrument and direction)"""
    rp = monitors.replay_of(tr)
    slip = tr.cfg["sim"].get("slippage")
    for c in tr.calls:
        if c["api"] != "order_target_portfolio" or c["exc"] is not None:
            continue
        targets, limits = c["args"]
        for o in c["orders"]:
            if o["book"] not in limits:
                continue
            want = limits[o["book"]][0 if o["side"] == "BUY" else 1]
            ctx.stats["user_limits_checked"] += 1
            if o["type"] != "LIMIT" or o["price"] != want:
                ctx.witness("C05.3", {"kind": "order_does_not_carry_callers_limit", "api": c["api"]},
                            "order_target_portfolio(%r, limits %r) at %s: the %s order for %s is %s at %r, the caller's limit is %r"
                            % (targets, limits, c["when"], o["side"], o["book"], o["type"], o["price"], want), rp)
    by_order = {}
    for c in tr.calls:
        if c["api"] == "order_target_portfolio" and c["exc"] is None:
            for o in c["orders"]:
                if o["book"] in c["args"][1]:
                    by_order[o["id"]] = (c["args"][1][o["book"]][0 if o["side"] == "BUY" else 1], c)
    for kind, e in tr.events:
        if kind == "TRADE" and e["order"] is not None and e["order"]["id"] in by_order and not slip:
            want, c = by_order[e["order"]["id"]]
            t = e["trade"]
            if (t["side"] == "BUY" and t["price"] > want + 1e-12) or (t["side"] == "SELL" and t["price"] < want - 1e-12):
                ctx.witness("C05.3", {"kind": "fill_worse_than_callers_limit", "api": c["api"]},
                            "order_target_portfolio(%r, limits %r) at %s: %s %s filled at %r, worse than the caller's limit %r (no slippage configured)"
                            % (c["args"][0], c["args"][1], c["when"], t["book"], t["side"], t["price"], want), rp)


def carried_limit_monitor(ctx, tr, ix):
    """the limit an order carries is the caller's limit — moved down to the tick grid when base.round_price is on (model `roundPrice`), never up"""
    rp = monitors.replay_of(tr)
    for c in tr.calls:
        if c["exc"] is not None or c["api"] not in ("order_shares", "order_value", "order_target_percent", "order_target_value", "buy_open", "sell_open", "buy_close", "sell_close", "order", "order_to") \
                or len(c["args"]) < 3 or not isinstance(c["args"][2], float) or c.get("from_trade_handler"):
            continue
        want = match_sync.carried_limit(ix, c["args"][0], c["args"][2])
        for o in c["orders"]:
            if o["type"] != "LIMIT":
                continue
            ctx.stats["carried_limits_checked"] += 1
            ctx.stats["carried_limits_moved_by_rounding"] += int(want != c["args"][2])
            if o["price"] != want:
                ctx.witness("C05.3", {"kind": "order_limit_not_callers_limit_rounded_down", "round_price": bool((tr.cfg.get("base_extra") or {}).get("round_price")), "raised": o["price"] > c["args"][2]},
                            "%s%r at %s: the %s order carries limit %r; the caller's limit %r on the tick grid of %r (rounded down) is %r"
                            % (c["api"], c["args"], c["when"], o["side"], o["price"], c["args"][2], match_sync.tick_size(ix, c["args"][0]), want), rp)
                return


def round_price_corr(ctx):
    """the real LimitOrder.round_price against the model on random prices and ticks"""
    import vlib
    from rqalpha.model.order import LimitOrder
    corr = ctx.corr("LimitOrder.round_price", "the real method on random limit prices and tick sizes vs model `roundPrice` on the same ten-thousandths")
    cases = []
    for _ in range(ctx.n(400, 20000)):
        tick = ctx.rnd.choice([0.01, 0.001, 1.0, 0.2, 5.0, 0.05, 0.5, 2.0])
        base = ctx.rnd.choice([ctx.rnd.uniform(0.5, 80), ctx.rnd.uniform(1000, 6000), round(ctx.rnd.uniform(1, 50), 2), float(ctx.rnd.randrange(1000, 5000))])
        lim = base + ctx.rnd.choice([0, 0, tick * 0.4, tick * 0.6, tick * 0.5, tick * 0.999, 1e-5])
        cases.append((lim, tick))
    if not ctx.driver_ok:
        return
    reps = vlib.ask_driver(["ROUNDPX %d %d" % (match_sync.tenthousandths(l), match_sync.tenthousandths(t)) for l, t in cases])
    import decimal
    for (lim, tick), rep in zip(cases, reps):
        st = LimitOrder(lim)
        st.round_price(tick)
        model = float(decimal.Decimal(int(rep)) / decimal.Decimal(10000))
        ctx.evaluations += 1
        if st.get_limit_price() != lim:
            ctx.nontrivial("round_price", tick, st.get_limit_price() < lim)
        corr.add(st.get_limit_price() == model, {"limit": lim, "tick": tick, "impl": st.get_limit_price(), "model": model})


def run(ctx):
    round_price_corr(ctx)
    corr = ctx.corr("DefaultBarMatcher.match", "outcome (rest/reject/cancel/fill quantity, price, close-today part, remainder cancel) of every real matcher call vs model `matchOrder` fed with bundle-derived market inputs, bit-exact prices")
    def gen(rnd, k):
        import bundle as B, trading
        S = B.gen_market(rnd, ndays=rnd.randrange(10, 26))
        if S["futures"] and k % 3 == 1:
            # the first contract carries its own future_info entry whose tick size differs from the underlying's
            f = S["futures"][0]
            f["under_info"] = dict(f["info"])
            f["info"] = dict(f["info"], tick_size=f["info"]["tick_size"] * 5)
        cfgk = trading.gen_config(rnd, S, {"otp": True, "pre_open_orders": k % 4 == 3, "no_signal": k % 4 == 3, "off_grid": k % 4 == 2})      # every fourth run: orders sent before the open from an event handler
        if S["futures"] and k % 3 == 1 and "future" in cfgk["accounts"]:
            cfgk["sim"].update(slippage_model="TickSizeSlippage", slippage=rnd.choice([1.0, 2.0]), signal=False)
        return S, cfgk
    tstream.stream(ctx, ctx.n(60, 3000), None, [monitors.c0506_monitor("C05"), user_limit_monitor, carried_limit_monitor], extra_sync=lambda c, tr, ix: match_sync.run_sync(c, corr, tr, ix), gen=gen)


    import minute_stream
    minute_stream.stream(ctx, ctx.n(6, 100), [])       # minute bars, next_bar matching, an order from a scheduled function: the free-running world decides when and at what price it fills


def replay(ctx, data):
    run(ctx)
    return "%d witnesses" % len(ctx.witnesses)

"""C05 — fill prices.  Step-sync of every matcher call against the Lean model with the prescribed price taken from the BUNDLE;
monitor: every trade's price recomputed from the bundle bar, the matching rule and the slippage model."""
import tstream, monitors, match_sync
LEVEL = "proof"
RULE = ("daily runs, matching types current_bar/vwap, auction and bar orders, all three slippage models and rates {0, 0.002, 0.01, 1 tick}, limit == reference, reference at/over "
        "the limits, missing and zero-turnover bars; one evaluation = one trade or matcher call; non-trivial = fill; distinct = by (type, effect, auction, outcome)")
TRUSTED = ["harness wraps DefaultBarMatcher.match; reference prices come from the generated bundle, not from rqalpha's price board"]
ASSUMPTIONS = ["minute frequency / next_bar matching not in the stream (daily immediate matching only)",
               "TickSizeSlippage does not clamp to the band (F20); LimitPriceSlippage crashes on opening orders (F22); an auction order can be re-matched at the close (F18)"]


def run(ctx):
    corr = ctx.corr("DefaultBarMatcher.match", "outcome (rest/reject/cancel/fill quantity, price, close-today part, remainder cancel) of every real matcher call vs model `matchOrder` fed with bundle-derived market inputs, bit-exact prices")
    tstream.stream(ctx, ctx.n(60, 3000), None, [monitors.c0506_monitor("C05")], extra_sync=lambda c, tr, ix: match_sync.run_sync(c, corr, tr, ix))


def replay(ctx, data):
    run(ctx)
    return "%d witnesses" % len(ctx.witnesses)

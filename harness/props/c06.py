"""C06 — price limits, liquidity limits, lots.  Step-sync of every matcher call against the Lean model; monitor: limit-up/down, zero volume,
cumulative per-bar cap, fill shape, market orders never partially open — recomputed from the bundle."""
import tstream, monitors, match_sync
LEVEL = "proof"
RULE = ("daily runs with many orders on one instrument in one bar, volumes {0, 100, 300, 1000, 4000, 40000, 1e6}, volume_percent {0.1, 0.25, 0.3, 1}, every on/off "
        "combination of price_limit / volume_limit / inactive_limit; one evaluation = one trade or matcher call; non-trivial = fill or stop; distinct = by outcome signature")
TRUSTED = ["harness wraps DefaultBarMatcher.match; bar volumes and limits come from the generated bundle"]
ASSUMPTIONS = ["'rounded down to whole lots' holds per fill; after an odd-lot liquidation the bar total can exceed the whole-lot cap (F17)"]


def directed_odd_lot(ctx, corr):
    """a split leaves an odd lot; its full liquidation and a large capped buy share one bar's volume cap"""
    import random, datetime
    import bundle as B, trading, acct_sync
    rnd = random.Random(ctx.rnd.random())
    S = B.gen_market(rnd, ndays=10, warm=2, n_stocks=1, with_future=False, opts={"kinds": ["CS"], "p_delist": 0, "p_split": 0, "p_div": 0, "p_sus": 0, "p_limit": 0, "p_thin": 0})
    st = S["stocks"][0]
    ratio = rnd.choice([1.5, 1.15, 1.2, 1.5])
    q0 = rnd.choice([100, 300, 700])
    d_buy, d_split, d_act = 3, 5, 6
    S["split"][st["id"]] = [(B.d14(S["cal"][d_split]), ratio)]
    S["fac"][st["id"]] = [(0, 1.0), (B.d14(S["cal"][d_split]), ratio)]
    for i in sorted(st["bars"]):
        b = list(st["bars"][i])
        if i >= d_split:          # prices after the split scale down
            for j in (1, 2, 3, 4, 7, 8):
                b[j] = round(b[j] / ratio, 2)
        if i == d_act:
            b[5] = float(rnd.choice([1000, 4000, 1300, 2000]))
            b[6] = b[5] * b[2]
        st["bars"][i] = tuple(b)
    cfgk = trading.gen_config(rnd, S, {"no_signal": True, "current_bar_only": True})
    cfgk["sim"].update({"volume_limit": True, "inactive_limit": True, "price_limit": False, "slippage": 0, "slippage_model": "PriceRatioSlippage"})
    cfgk["accounts"] = {"stock": 1e7}
    cfgk["accounts_mod"]["stock_t1"] = False
    days = S["cal"]

    def script(tr, handlers):
        def hb(context, bar_dict):
            import rqalpha.api as api
            d = context.now.date()
            if d == days[d_buy]:
                api.order_shares(st["id"], q0)
            elif d == days[d_act]:
                held = context.portfolio.accounts["STOCK"].get_position(st["id"]).quantity
                if held:
                    api.order_shares(st["id"], -held)
                api.order_shares(st["id"], 5000)
        handlers["handle_bar"] = hb
        handlers.pop("open_auction", None)
        return handlers
    tr = trading.run_trading(rnd, S, cfgk, script=script)
    ix = acct_sync.Index(S, cfgk)
    match_sync.run_sync(ctx, corr, tr, ix)
    monitors.c0506_monitor("C06")(ctx, tr, ix)
    ctx.stats["directed_odd_lot_runs"] += 1
    ctx.stats["directed_odd_lot_trades"] += len([1 for k, _ in tr.events if k == "TRADE"])


def run(ctx):
    corr = ctx.corr("DefaultBarMatcher.match", "outcome and accumulator of every real matcher call vs model `matchOrder/turnoverAfter` fed with bundle-derived volume and limits")
    _run_directed(ctx, corr)
    tstream.stream(ctx, ctx.n(90, 3000), None, [monitors.c0506_monitor("C06")], extra_sync=lambda c, tr, ix: match_sync.run_sync(c, corr, tr, ix),
                   market_opts=lambda k: {"opts": {"p_thin": 0.8, "p_limit": 0.3, "p_split": 0.7 if k % 2 else 0.3, "kinds": ["CS"] * 7 + ["ETF"] if k % 2 else ["CS"] * 6 + ["ETF", "KSH"]}},
                   cfg_opts=lambda k: {"c06_plans": True})


def _run_directed(ctx, corr):
    for _ in range(ctx.n(8, 200)):
        directed_odd_lot(ctx, corr)


def replay(ctx, data):
    run(ctx)
    return "%d witnesses" % len(ctx.witnesses)

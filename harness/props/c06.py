"""C06 — price limits, liquidity limits, lots.  Step-sync of every matcher call against the Lean model; monitor: limit-up/down, zero volume,
cumulative per-bar cap, fill shape, market orders never partially open — recomputed from the bundle."""
import tstream, monitors, match_sync
LEVEL = "proof"
RULE = ("daily runs with many orders on one instrument in one bar, volumes {0, 100, 300, 1000, 4000, 40000, 1e6}, volume_percent {0.1, 0.25, 0.3, 1}, every on/off "
        "combination of price_limit / volume_limit / inactive_limit; one evaluation = one trade or matcher call; non-trivial = fill or stop; distinct = by outcome signature")
TRUSTED = ["harness wraps DefaultBarMatcher.match; bar volumes and limits come from the generated bundle"]
ASSUMPTIONS = ["'rounded down to whole lots' holds per fill; after an odd-lot liquidation the bar total can exceed the whole-lot cap (F17)"]


def run(ctx):
    corr = ctx.corr("DefaultBarMatcher.match", "outcome and accumulator of every real matcher call vs model `matchOrder/turnoverAfter` fed with bundle-derived volume and limits")
    tstream.stream(ctx, ctx.n(60, 3000), None, [monitors.c0506_monitor("C06")], extra_sync=lambda c, tr, ix: match_sync.run_sync(c, corr, tr, ix),
                   market_opts=lambda k: {"opts": {"p_thin": 0.8, "p_limit": 0.3}})


def replay(ctx, data):
    run(ctx)
    return "%d witnesses" % len(ctx.witnesses)

"""C07 — no look-ahead.  Two-world differential on the real rqalpha: a scenario is run on a market history and on a second history
that agrees with it up to a cut-off (end of a day, or the opening auction of a day) and is re-drawn after it; the canonical traces —
every value a strategy can observe through the bar / history / snapshot / position / reference-data APIs in every phase (logged and
partly fed back into orders), every order event, fill and portfolio snapshot — must be identical up to the cut-off.
Correspondence: history windows of the real API before the open vs the Lean history model applied to the TRUNCATED bar table (the model
cannot see later bars), and the regenerated auction-bar field list."""
import random, copy, datetime, json
import vlib, bundle as B, trading, isotrace
from vlib import f2b

LEVEL = "proof"
RULE = ("scenario = generated market (1-3 stocks/ETF/STAR, optional futures, corporate actions, suspensions) + scripted strategy that logs ~25 queries per instrument in "
        "before_trading / open_auction / handle_bar / after_trading and feeds history results back into orders; second world = bars after the cut re-drawn (prices, volumes, "
        "suspensions), later dividends / splits / factors removed; cut = end of a random day or the opening auction of a random day (then the cut day keeps open, limits, "
        "volume, turnover and suspension: what the data source defines as the auction bar); one evaluation = one compared trace entry before the cut; distinct = by (cut kind, query kinds)")
TRUSTED = ["the strategy's own decisions are a function of the query results it logs (history closes) and of a PRNG seeded per scenario",
           "the cut day keeps its volume and suspension status in both worlds when the cut is before the bar (daily bars: the auction bar carries the day's volume by design)"]
ASSUMPTIONS = ["daily frequency; minute frequency is not in the two-world stream", "reference data of instruments (listing / delisting / maturity dates) is the same in both worlds"]

QFIELDS = ["datetime", "open", "high", "low", "close", "volume"]


def perturb(S, ci, before_open, rnd):
    """second world: identical up to the cut (trading-day index ci in S['cal']); everything after it re-drawn"""
    T = copy.deepcopy(S)
    cut_d8 = B.d8(S["cal"][ci])
    for st in T["stocks"]:
        new = {}
        for i, b in st["bars"].items():
            if i < ci or (i == ci and not before_open):
                new[i] = b
            elif i == ci:
                d, o, c, hi, lo, v, tt, lu, ld = b
                if v > 0:
                    c2 = min(lu, max(ld, round(o * (1 + rnd.uniform(-0.06, 0.06)), 2)))
                    # the day's turnover (hence its volume-weighted average price) belongs to the future as well
                    new[i] = (d, o, c2, max(o, c2, min(lu, round(max(o, c2) * 1.01, 2))), min(o, c2, max(ld, round(min(o, c2) * 0.99, 2))), v, v * round((o + 2 * c2) / 3, 2), lu, ld)
                else:
                    new[i] = b
            else:
                d, o, c, hi, lo, v, tt, lu, ld = b
                k = rnd.uniform(0.9, 1.1)
                o2, c2 = round(o * k, 2), round(c * k * (1 + rnd.uniform(-0.03, 0.03)), 2)
                v2 = float(rnd.choice([0, 100, 1000, 1e6, 1e6]))
                new[i] = (d, o2, c2, max(o2, c2), min(o2, c2), v2, v2 * c2, round(lu * k, 2), round(ld * k, 2))
        st["bars"] = new
        oid = st["id"]
        # a dividend that has been ANNOUNCED by the cut is known in both histories (get_dividend reports by announcement date), whenever its ex-date is
        T["div"][oid] = [r for r in T["div"].get(oid, []) if r[2] <= cut_d8 or r[0] <= cut_d8]
        if not T["div"][oid]:
            T["div"].pop(oid)
        T["split"][oid] = [r for r in T["split"].get(oid, []) if r[0] // 1000000 <= cut_d8]
        if not T["split"][oid]:
            T["split"].pop(oid)
        if oid in T["fac"]:
            T["fac"][oid] = [r for r in T["fac"][oid] if r[0] // 1000000 <= cut_d8]
        T["sus"][oid] = [d for d in T["sus"].get(oid, []) if d <= cut_d8] + [B.d8(S["cal"][i]) for i, b in new.items() if i > ci and b[5] == 0 and rnd.random() < 0.5]
        if not T["sus"][oid]:
            T["sus"].pop(oid)
    for ft in T["futures"]:
        new = {}
        for i, b in ft["bars"].items():
            if i < ci or (i == ci and not before_open):
                new[i] = b
            elif i == ci:
                d, o, c, hi, lo, v, tt, lu, ld, stl, pst, oi = b
                c2 = float(round(o * (1 + rnd.uniform(-0.03, 0.03))))
                new[i] = (d, o, c2, max(o, c2), min(o, c2), v, tt, lu, ld, float(round((o + c2) / 2)), pst, oi)
            else:
                d, o, c, hi, lo, v, tt, lu, ld, stl, pst, oi = b
                k = rnd.uniform(0.95, 1.05)
                o2, c2 = float(round(o * k)), float(round(c * k))
                new[i] = (d, o2, c2, max(o2, c2), min(o2, c2), float(rnd.choice([0, 20, 1000])), tt, float(round(lu * k)), float(round(ld * k)), float(round((o2 + c2) / 2)), pst, oi)
        ft["bars"] = new
    return T


def canon_q(x):
    import numpy as np
    if x is None:
        return None
    if isinstance(x, np.ndarray):
        if x.dtype.names:
            return [[canon_q(r[n]) for n in x.dtype.names] for r in x]
        return [canon_q(v) for v in x.tolist()]
    if isinstance(x, (np.floating, float)):
        return repr(float(x))
    if isinstance(x, (np.integer, int)) and not isinstance(x, bool):
        return int(x)
    if isinstance(x, (list, tuple)):
        return [canon_q(v) for v in x]
    if isinstance(x, (datetime.datetime, datetime.date)):
        return x.isoformat()
    if isinstance(x, (bool, str)):
        return x
    return repr(x)


def run_world(S, cfgk, seed, ids):
    """the real rqalpha on S with the query-logging strategy on top of the scripted trading strategy"""
    from rqalpha.environment import Environment

    def script(tr, handlers):
        init0, hb0, au0 = handlers["init"], handlers["handle_bar"], handlers["open_auction"]
        stocks = [i for i in ids if "." in i]

        def q(phase, name, oid, fn):
            env = Environment.get_instance()
            try:
                r = canon_q(fn())
            except Exception as ex:
                r = "raised:" + type(ex).__name__
            tr.events.append(("QUERY", {"cal": env.calendar_dt, "phase": phase, "query": name, "id": oid, "result": r}))
            return r

        def queries(context, phase, bar_dict=None):
            import rqalpha.api as api
            env = Environment.get_instance()
            for oid in ids:
                ins = env.data_proxy.instrument(oid)
                if ins is None:
                    continue
                for skip in (True, False):
                    for adj in ("pre", "none", "post"):
                        q(phase, "history_1d:%s:%s" % (int(skip), adj), oid, lambda: api.history_bars(oid, 5, "1d", QFIELDS, skip_suspended=skip, adjust_type=adj))
                q(phase, "history_1d_include_now", oid, lambda: api.history_bars(oid, 3, "1d", "close", include_now=True))
                q(phase, "history_1d_all_fields", oid, lambda: api.history_bars(oid, 2, "1d", None))
                q(phase, "history_1w", oid, lambda: api.history_bars(oid, 2, "1w", "close"))
                q(phase, "history_1w_include_now", oid, lambda: api.history_bars(oid, 2, "1w", "close", include_now=True))
                q(phase, "snapshot", oid, lambda: (lambda s_: None if s_ is None else [s_.open, s_.high, s_.low, s_.last, s_.volume, s_.total_turnover, s_.prev_close])(api.current_snapshot(oid)))
                held = any(p.order_book_id == oid and p.quantity for p in api.get_positions())
                q(phase, "position_last_price" + ("" if held else "_unheld"), oid, lambda: api.get_position(oid).last_price)
                q(phase, "position_market_value", oid, lambda: api.get_position(oid).market_value)
                if "." in oid:
                    q(phase, "is_suspended", oid, lambda: api.is_suspended(oid))
                    q(phase, "get_dividend", oid, lambda: api.get_dividend(oid, "2019-01-01"))
                if bar_dict is not None:
                    for f in ("open", "close", "high", "low", "last", "volume", "total_turnover", "limit_up", "limit_down", "prev_close", "is_trading", "suspended", "isnan"):
                        q(phase, "bar." + f, oid, lambda: getattr(bar_dict[oid], f))
                    if phase == "handle_bar":
                        q(phase, "bar.mavg", oid, lambda: bar_dict[oid].mavg(3))
                        q(phase, "bar.vwap", oid, lambda: bar_dict[oid].vwap(3))
            q(phase, "portfolio", None, lambda: [context.portfolio.total_value, context.portfolio.unit_net_value, context.portfolio.cash, context.portfolio.market_value])

        def feedback(context, phase):
            """orders that are a function of what the history API returned: a leak in the window shows up as a different order"""
            import rqalpha.api as api
            for oid in stocks:
                try:
                    h = api.history_bars(oid, 3, "1d", "close")
                    if h is None or len(h) < 2:
                        continue
                    sig = int(round(float(h[-1]) * 100)) % 5
                    if sig == 0:
                        o = api.order_shares(oid, 100)
                    elif sig == 1:
                        o = api.order_shares(oid, -100)
                    else:
                        o = None
                    tr.events.append(("QUERY", {"cal": Environment.get_instance().calendar_dt, "phase": phase, "query": "feedback_order", "id": oid,
                                                "result": [sig, None if o is None else o.status.name, None if o is None else canon_q(o.filled_quantity)]}))
                except Exception as ex:
                    tr.events.append(("QUERY", {"cal": Environment.get_instance().calendar_dt, "phase": phase, "query": "feedback_order", "id": oid, "result": "raised:" + type(ex).__name__}))

        def init(context):
            import rqalpha.api as api
            from rqalpha.core.events import EVENT
            init0(context)
            # a function scheduled for the before-trading slot sees what before_trading sees
            api.scheduler.run_daily(lambda c, b: queries(c, "scheduled_before_trading"), time_rule="before_trading")

            # a subscribed handler of an event published before the open (it runs outside the strategy callbacks' phases)
            def pre_bt(c, e):
                for oid in ids:
                    if Environment.get_instance().data_proxy.instrument(oid) is None:
                        continue
                    held = any(p.order_book_id == oid and p.quantity for p in api.get_positions())
                    q("handler_pre_before_trading", "position_last_price" + ("" if held else "_unheld"), oid, lambda: api.get_position(oid).last_price)
                    q("handler_pre_before_trading", "history_1d", oid, lambda: api.history_bars(oid, 2, "1d", "close"))
            api.subscribe_event(EVENT.PRE_BEFORE_TRADING, pre_bt)

        def before_trading(context):
            queries(context, "before_trading")

        def open_auction(context, bar_dict):
            import rqalpha.api as api
            from rqalpha.model.order import LimitOrder
            queries(context, "open_auction", bar_dict)
            feedback(context, "open_auction")
            # an auction limit order that does not cross the open, then a second order in the same call: the broker looks at its book again, the leftover must
            # go on waiting for the bar whatever that bar will be
            for oid in stocks[:2]:
                try:
                    o_ = bar_dict[oid].open
                    if o_ == o_ and o_ > 0:
                        lo_ = api.order_shares(oid, 100, price_or_style=LimitOrder(round(o_ * 0.985, 2)))
                        mo_ = api.order_shares(oid, 100)
                        tr.events.append(("QUERY", {"cal": Environment.get_instance().calendar_dt, "phase": "open_auction", "query": "auction_leftover", "id": oid,
                                                    "result": [None if x is None else [x.status.name, canon_q(x.filled_quantity), canon_q(x.avg_price)] for x in (lo_, mo_)]}))
                except Exception as ex:
                    tr.events.append(("QUERY", {"cal": Environment.get_instance().calendar_dt, "phase": "open_auction", "query": "auction_leftover", "id": oid, "result": "raised:" + type(ex).__name__}))
            au0(context, bar_dict)

        def handle_bar(context, bar_dict):
            queries(context, "handle_bar", bar_dict)
            feedback(context, "handle_bar")
            hb0(context, bar_dict)

        def after_trading(context):
            queries(context, "after_trading")
        return dict(handlers, init=init, before_trading=before_trading, open_auction=open_auction, handle_bar=handle_bar, after_trading=after_trading)
    return trading.run_trading(random.Random(seed), S, cfgk, script=script, ids=ids, intensity=0.5)


def entry_time(kind, e):
    return e.get("cal") if isinstance(e, dict) and e.get("cal") is not None else (e.get("when") if isinstance(e, dict) else None)


def prefix(tr, limit):
    out = []
    for kind, e in tr.events:
        t = entry_time(kind, e)
        if t is None or t <= limit:
            out.append((kind, e))
        else:
            break
    return out


def canon_events(evs):
    class T(object):
        pass
    t = T()
    t.events = evs
    t.exc = None
    return isotrace.canon(t)[:-1]


def truncation_corr(ctx, corr, S, tr, ids):
    """history windows the real API returned before the open vs the Lean history model on the bar table TRUNCATED at the previous day"""
    from props import c20
    lines, impls, metas = [], [], []
    cal8 = [B.d8(d) for d in S["cal"]]
    for kind, e in tr.events:
        if kind != "QUERY" or not e["query"].startswith("history_1d:") or e["phase"] not in ("before_trading", "open_auction") or not isinstance(e["result"], list):
            continue
        st = next((x for x in S["stocks"] if x["id"] == e["id"]), None)
        if st is None:
            continue
        _, skip, adj = e["query"].split(":")
        today = B.d8(e["cal"].date())
        prevs = [d for d in cal8 if d < today]
        if not prevs:
            continue
        end = prevs[-1]
        trunc = dict(st, bars={i: b for i, b in st["bars"].items() if b[0] // 1000000 <= end})        # the model sees nothing after the previous trading day
        fac = S["fac"].get(st["id"])
        S2 = {"fac": {st["id"]: [r for r in fac if r[0] // 1000000 <= today]} if fac else {}}
        line = "HIST %d 0 %d %s %d %d %d %s %s" % (st["type"] == "CS", int(skip), adj, 5, end, today, c20.bars_line(S, trunc), c20.facs_line(S2, trunc))
        # the API returned QFIELDS: datetime, open, high, low, close, volume
        impl = [[int(r[0]) // 1000000] + [vlib.b2f(f2b(float(v))) for v in r[1:]] for r in e["result"]]
        lines.append(line)
        impls.append(impl)
        metas.append({"id": st["id"], "phase": e["phase"], "today": today, "skip_suspended": bool(int(skip)), "adjust": adj})
    lines, impls, metas = lines[:400], impls[:400], metas[:400]
    if not (lines and ctx.driver_ok):
        return
    for line, impl, meta, rep in zip(lines, impls, metas, vlib.ask_driver(lines)):
        toks = rep.split()
        if toks[0] == "NONE":
            corr.add(False, dict(meta, model="NONE", impl=impl[:2]))
            continue
        n = int(toks[0])
        rows = [toks[1 + 9 * i: 10 + 9 * i] for i in range(n)]
        # model bar tokens: dt open close high low volume turnover limit_up limit_down
        model = [[int(r[0]), vlib.b2f(r[1]), vlib.b2f(r[3]), vlib.b2f(r[4]), vlib.b2f(r[2]), vlib.b2f(r[5])] for r in rows]
        ok = len(model) == len(impl) and all(a[0] == b[0] and all(f2b(x) == f2b(y) for x, y in zip(a[1:], b[1:])) for a, b in zip(impl, model))
        corr.add(ok, dict(meta, impl=impl[-2:], model=model[-2:]) if not ok else meta)
        ctx.evaluations += 1


def run(ctx):
    rnd = random.Random(ctx.rnd.random())
    corr = ctx.corr("history before the open", "windows returned by the real history_bars API in before_trading / open_auction vs the Lean history model applied to the bar table truncated "
                                               "at the previous trading day and the factor table truncated at today (bit-exact): the implementation answers like a model that cannot see later data")
    corr_f = ctx.corr("auction bar fields", "fields of the real bar_dict object in open_auction that carry a value vs the regenerated OPEN_AUCTION_BAR_FIELDS list")
    n = ctx.n(10, 150)
    for k in range(n):
        seed = rnd.randrange(1, 10 ** 6)
        r2 = random.Random(seed)
        first_day = (k == n - 1)           # directed: the run starts on the first day of the trading calendar and the cut is its opening auction
        init_day = (k in (n - 2, n - 3))   # directed: the run starts from configured holdings and the cut is the opening auction of its first day
        S = B.gen_market(r2, ndays=r2.randrange(7, 15), opts={"p_div": 1.0 if k % 3 == 0 else 0.6, "p_split": 0.4, "p_sus": 0.1, "p_delist": 0.1, "early_announce": k % 3 == 0, "p_two_div": 1.0 if k % 3 == 0 else 0.2},
                         **({"warm": 0} if first_day else {}), **({"n_stocks": 3} if k % 3 == 0 else {}))
        cfgk = trading.gen_config(r2, S, {"no_signal": True, "p_reinvest": 0.5, "p_init_pos": 1.0 if init_day else 0.15})
        if k % 3 == 1:
            cfgk["sim"]["matching_type"] = "vwap"          # the day's turnover / volume is the execution price: the second price a matcher could read too early
        if not cfgk["accounts"] or not S["stocks"]:
            continue
        if init_day and "stock" not in cfgk["accounts"]:
            cfgk["accounts"]["stock"] = 200000.0
        if init_day and "stock" in cfgk["accounts"]:
            st0 = next((s_ for s_ in S["stocks"] if s_["listed"] <= S["cal"][0]), None)
            if st0 is not None and st0["id"] not in str((cfgk.get("base_extra") or {}).get("init_positions", "")):
                ip0 = (cfgk.get("base_extra") or {}).get("init_positions")
                cfgk["base_extra"] = dict(cfgk.get("base_extra") or {}, init_positions=(ip0 + "," if ip0 else "") + "%s:300" % st0["id"])
        ids = [s["id"] for s in S["stocks"]] + [f["id"] for f in S["futures"]]
        days = [d for d in S["cal"] if S["start"] <= d <= S["end"]]
        A = run_world(S, cfgk, seed, ids)
        ctx.stats["runs"] += 1
        truncation_corr(ctx, corr, S, A, ids)
        cuts = []
        # days on which something happens before the open (ex-dates, payable dates, splits): half of the cuts are their opening auctions
        event_days = sorted({B.d8(d) for d in days} & ({r[2] for rows in S["div"].values() for r in rows} | {r[3] for rows in S["div"].values() for r in rows} |
                                                        {ex // 1000000 for rows in S["split"].values() for ex, _ in rows}))
        for _ in range(2 if ctx.tier == "quick" else 3):
            di = r2.randrange(1, len(days) - 1)
            before = r2.random() < 0.5
            if event_days and r2.random() < 0.5:
                d8_ = r2.choice(event_days)
                di_ = next(i for i, d in enumerate(days) if B.d8(d) == d8_)
                if 1 <= di_ < len(days) - 1:
                    di, before = di_, True
            cuts.append((di, before))
        # a table whose announcement dates do not ascend: one cut between the two announcements (the later row is not announced yet)
        for rows in S["div"].values():
            anns = [r[0] for r in rows]
            if len(anns) >= 2 and anns != sorted(anns):
                inside = [i for i, d in enumerate(days) if min(anns) < B.d8(d) < max(anns) and 1 <= i < len(days) - 1]
                if inside:
                    cuts.append((inside[-1], True))
                    ctx.stats["cuts_between_two_announcements"] += 1
                    break
        if first_day or init_day:
            cuts = [(0, True)]
        for di, before_open in cuts:
            ci = S["cal"].index(days[di])
            T = perturb(S, ci, before_open, random.Random(seed * 31 + di))
            Bw = run_world(T, cfgk, seed, ids)
            # "before the open" = everything published before that day's bar, whatever clock the events carry
            limit = datetime.datetime.combine(days[di], datetime.time(14, 59)) if before_open else datetime.datetime.combine(days[di], datetime.time(23, 59))
            pa, pb = prefix(A, limit), prefix(Bw, limit)
            ca, cb = canon_events(pa), canon_events(pb)
            ctx.evaluations += max(len(ca), len(cb))
            ctx.stats["pairs"] += 1
            ctx.stats["compared_entries"] += len(ca)
            ctx.nontrivial("before_open" if before_open else "end_of_day", len([1 for e in ca if e[0] == "TRADE"]) > 0, bool(S["futures"]))
            rp = {"seed": seed, "cut_day": str(days[di]), "cut": "opening auction" if before_open else "end of day", "cfg": {k_: str(v) for k_, v in cfgk.items()}}
            # every differing entry before the cut is a leak; report per (query, phase) class
            seen = set()
            for i, (x, y) in enumerate(zip(ca, cb)):
                if x == y:
                    continue
                if x[0] == "QUERY" and y[0] == "QUERY" and x[1]["query"] == y[1]["query"]:
                    sig = {"kind": "query_leak", "query": x[1]["query"].split(":")[0], "phase": x[1]["phase"]}
                    if ci == 0:
                        sig["first_calendar_day"] = True
                    what = "%s(%s) in %s at %s returned %s in one history and %s in the other" % (x[1]["query"], x[1]["id"], x[1]["phase"], x[1]["cal"], json.dumps(x[1]["result"])[:160], json.dumps(y[1]["result"])[:160])
                else:
                    sig = {"kind": "trace_differs", "entry": x[0], "cut": rp["cut"]}
                    if ci == 0 and i == 0 and (cfgk.get("base_extra") or {}).get("init_positions"):
                        # configured starting holdings are priced at "the previous trading day", which on the first day of the calendar is that day itself (finding F29)
                        sig = {"kind": "query_leak", "first_calendar_day": True, "query": "init_positions"}
                    # a fill during the opening auction that is not at the open (finding F18: an auction order re-matched as a bar order at the day's close)
                    # (the fill exists in both histories at different prices, or — when the limit lies between the two closes — in one of them only)
                    if before_open and any(z[0] == "TRADE" and z[1].endswith("T00:00:00") for z in (x, y)):
                        try:
                            for z in (x, y):
                                if z[0] == "TRADE" and z[1].endswith("T00:00:00"):
                                    rec_ = next(r_ for r_ in S["stocks"] + S["futures"] if r_["id"] == z[2]["book"])
                                    if abs(float(z[2]["price"]) - rec_["bars"][ci][1]) > 1e-9:
                                        sig = {"kind": "auction_trade_not_at_open"}
                        except Exception:
                            pass
                    sx, sy = json.dumps(x), json.dumps(y)
                    j = next((c for c in range(min(len(sx), len(sy))) if sx[c] != sy[c]), 0)
                    what = "trace entry %d (%s) before the cut differs: ...%s | ...%s" % (i, x[0], sx[max(0, j - 120): j + 60], sy[max(0, j - 120): j + 60])
                key = json.dumps(sig, sort_keys=True)
                if key in seen:
                    continue
                seen.add(key)
                ctx.witness("C07.1", sig, "two market histories identical up to the %s of %s: %s" % (rp["cut"], days[di], what), dict(rp, entry=i))
                if sig["kind"] == "trace_differs" or sig.get("query") == "init_positions":
                    break           # later entries are consequences
            if len(ca) != len(cb) and not seen:
                ctx.witness("C07.1", {"kind": "trace_length", "cut": rp["cut"]}, "traces before the cut have %d and %d entries" % (len(ca), len(cb)), rp)
        # auction bar fields: which attributes of the auction bar object are real numbers
        import math
        vals = {}
        for kind, e in A.events:
            if kind == "QUERY" and e["phase"] == "open_auction" and e["query"].startswith("bar."):
                f = e["query"][4:]
                r = e["result"]
                if isinstance(r, str) and r.startswith("raised"):
                    vals.setdefault(f, set()).add("raises")
                elif isinstance(r, str) and r not in ("nan",):
                    vals.setdefault(f, set()).add("value")
                else:
                    vals.setdefault(f, set()).add("other")
        exposed = sorted(f for f, s in vals.items() if "value" in s and f in ("open", "close", "high", "low", "volume", "total_turnover", "limit_up", "limit_down"))
        if ctx.driver_ok and vals:
            model = sorted(x for x in vlib.ask_driver(["AUCFIELDS"])[0].split() if x != "datetime")
            corr_f.add(exposed == model or set(exposed) <= set(model), {"exposed_by_the_implementation": exposed, "regenerated_list": model})
            for f in ("close", "high", "low"):
                if f in exposed:
                    ctx.witness("C07.2", {"kind": "auction_bar_exposes", "field": f}, "bar_dict in open_auction exposes the day's %s" % f, {"seed": seed})


def replay(ctx, data):
    run(ctx)
    return "%d witnesses" % len(ctx.witnesses)

"""C14 — resume from persisted state.  (A) round trip of the real Portfolio/Account/Position state through get_state -> set_state on a fresh
portfolio at every persistence point of real runs, compared with the persistence model whose key tables are regenerated from the source;
(B) the real PersistHelper on scripted state sequences vs model `persistSeq`; (C) whole runs stopped at a random day and resumed from the
persisted state vs the uninterrupted run (events vs model `execResume`, traces compared entry by entry)."""
import os, random, json, copy, datetime
import vlib, bundle as B, trading, recorder, isotrace, persist_mod, acct_sync
HARNESS = os.path.dirname(os.path.dirname(os.path.abspath(__file__)))

LEVEL = "proof"
RULE = ("(A) every POST_BAR / POST_AFTER_TRADING / POST_SETTLEMENT of trading-stream runs (stock and futures positions, receivable dividends, liabilities, deposits in transit, management fees): "
        "one evaluation = one round trip; (B) random state sequences over a small alphabet incl. empty states and returns to earlier values; (C) scenarios stopped after a random trading day and "
        "resumed on the next with the in-memory provider, persist_mode real_time; non-trivial = round trip of a non-empty portfolio / resumed run with trades; distinct = by (kinds of state held, stop position)")
TRUSTED = ["harness builds the fresh Portfolio with Account.register_event disabled and a private EventBus (no listener of the fresh objects runs)",
           "in-memory persist provider mod (harness/persist_mod.py)", "the scripted strategy re-seeds its PRNG from (key, clock, phase): it has no hidden state"]
ASSUMPTIONS = ["md5 equality is modelled as state equality", "the stop day is settled twice by stop+resume (finding F7c, theorem resume_replays_settlement); with a management fee or the analyser enabled this is observable",
               "broker state (open orders) is empty at end-of-day persistence points and is not modelled"]

MODEL2SNAP = {"pos.quantity": "qty", "pos.old_quantity": "old", "pos.logical_old_quantity": "logical_old", "pos.avg_price": "avg", "pos.trade_cost": "trade_cost",
              "pos.transaction_cost": "txn_cost", "pos.last_price": "last_raw", "pos.non_closable": "non_closable", "pos.dividend_receivable": "div",
              "acct.total_cash": "total_cash", "acct.frozen_cash": "frozen", "acct.cash_liabilities": "liab", "acct.pending_deposit_withdraw": "pending",
              "acct.management_fees": "mgmt_fees", "acct.positions": "holdings", "pf.units": "units", "pf.static_unit_net_value": "static_nav", "pf.accounts": "accounts"}


def raw_snap(pf):
    from rqalpha.const import POSITION_DIRECTION
    out = {"units": float(pf._units), "static_nav": float(pf._static_unit_net_value), "accounts": {}}
    for t, a in pf._accounts.items():
        s = recorder.snap_account(a, with_obs=False)
        for h in s["holdings"]:
            pair = a._positions[h["id"]]
            for side, d in (("long", POSITION_DIRECTION.LONG), ("short", POSITION_DIRECTION.SHORT)):
                lp = pair[d]._last_price
                h[side]["last_raw"] = None if lp is None else float(lp)
                h[side].pop("last", None)
        out["accounts"][t] = s
    return out


def roundtrip(env):
    """the real state through get_state -> (bytes) -> set_state on a freshly constructed Portfolio, as a resumed run does"""
    from rqalpha.portfolio import Portfolio
    from rqalpha.portfolio.account import Account
    from rqalpha.core.events import EventBus
    live = env.portfolio
    blob = live.get_state()
    reg = Account.register_event
    Account.register_event = lambda self: None
    try:
        cfg = env.config
        fresh = Portfolio(cfg.base.accounts, [], cfg.mod.sys_accounts.financing_rate, cfg.base.start_date, env.data_proxy, EventBus())
    finally:
        Account.register_event = reg
    for t, a in fresh._accounts.items():        # configuration-derived, set by the simulation mod at start-up in a real resume
        a._management_fee_rate = live._accounts[t]._management_fee_rate
    fresh.set_state(blob)
    return raw_snap(live), raw_snap(fresh)


def diff_fields(a, b):
    """names (snapshot vocabulary) of the fields in which two raw snapshots differ"""
    out = set()

    def same(x, y):
        return json.dumps(isotrace.fr(x), sort_keys=True) == json.dumps(isotrace.fr(y), sort_keys=True)
    for k in ("units", "static_nav"):
        if not same(a[k], b[k]):
            out.add(k)
    if sorted(a["accounts"]) != sorted(b["accounts"]):
        out.add("accounts")
        return out
    for t in a["accounts"]:
        x, y = a["accounts"][t], b["accounts"][t]
        for k in ("total_cash", "frozen", "liab", "pending", "mgmt_fees"):
            if not same(x[k], y[k]):
                out.add(k)
        hx = {h["id"]: h for h in x["holdings"]}
        hy = {h["id"]: h for h in y["holdings"]}
        if sorted(hx) != sorted(hy):
            out.add("holdings")
        for i in set(hx) & set(hy):
            for side in ("long", "short"):
                for k in hx[i][side]:
                    if not same(hx[i][side][k], hy[i][side].get(k)):
                        out.add(k)
    return out


def part_a(ctx, corr, lost_model):
    rnd = random.Random(ctx.rnd.random())
    from rqalpha.environment import Environment
    from rqalpha.core.events import EVENT
    n_runs = ctx.n(25, 1200)
    for k in range(n_runs):
        r2 = random.Random(rnd.random())
        S = B.gen_market(r2, ndays=r2.randrange(8, 20), opts={"p_div": 0.7, "p_split": 0.4} if k % 2 else None)
        cfgk = trading.gen_config(r2, S, {"no_signal": True})
        if not cfgk["accounts"]:
            continue
        cases = []
        ex_cases = []

        def script(tr, handlers):
            init0 = handlers["init"]

            def init(context):
                import rqalpha.api as api
                init0(context)
                for name in ("POST_BAR", "POST_AFTER_TRADING", "POST_SETTLEMENT"):
                    def mk(name):
                        def h(c, e):
                            env = Environment.get_instance()
                            a, b = roundtrip(env)
                            cases.append((name, env.calendar_dt, a, b))
                            # the executor's own persisted state ("the morning of this trading day is done"): what a restored executor compares the clock with
                            from rqalpha.core.executor import Executor
                            for val in (env.trading_dt.date(), None):
                                e1, e2 = Executor(env), Executor(env)
                                e1._last_before_trading = val
                                e2.set_state(e1.get_state())
                                ex_cases.append((name, env.calendar_dt, val, e2._last_before_trading))
                        return h
                    api.subscribe_event(getattr(EVENT, name), mk(name))
            return dict(handlers, init=init)
        tr = trading.run_trading(r2, S, cfgk, script=script)
        ctx.stats["runs_a"] += 1
        for name, when, v1, v2 in ex_cases:
            ctx.evaluations += 1
            ctx.stats["executor_roundtrips"] += 1
            if type(v1) is not type(v2) or v1 != v2:
                ctx.witness("C14.2", {"kind": "executor_state_lost"}, "%s at %s: the executor's state (last_before_trading = %r) comes back from get_state/set_state as %r: a run resumed inside this trading day "
                            "does not recognise that its morning is done (the comparison is with a date)" % (name, when, v1, v2), {"point": name, "when": str(when)})
                break
        for name, when, a, b in cases:
            ctx.evaluations += 1
            lost = diff_fields(a, b)
            held = set()
            for t, s in a["accounts"].items():
                if s["liab"]:
                    held.add("liability")
                if s["pending"]:
                    held.add("deposit_in_transit")
                if s["mgmt_fees"]:
                    held.add("management_fees")
                for h in s["holdings"]:
                    for side in ("long", "short"):
                        if h[side]["qty"]:
                            held.add(t.lower() + "_" + side)
                        if h[side]["div"]:
                            held.add("receivable_dividend" + ("_flat" if not h[side]["qty"] else ""))
            if held:
                ctx.nontrivial(tuple(sorted(held)), name)
            # the model loses a field only where the state actually holds a non-default value of it: compare on the fields present
            want = {f for f in lost_model if f in lost} | set()
            corr.add(lost <= lost_model, {"point": name, "when": str(when), "fields_lost_by_the_implementation": sorted(lost), "fields_the_model_loses": sorted(lost_model), "held": sorted(held)})
            for f in sorted(lost):
                ctx.witness("C14.2", {"kind": "state_lost", "field": f},
                            "%s at %s: portfolio state written by get_state and read back by set_state on a fresh portfolio differs in %s (held: %s)" % (name, when, sorted(lost), sorted(held)),
                            {"cfg": {k_: str(v) for k_, v in cfgk.items()}, "point": name, "when": str(when), "live": isotrace.fr(a), "restored": isotrace.fr(b)})
                break
            ctx.stats["roundtrips"] += 1


class FakeObj(object):
    def __init__(self):
        self.state = None

    def get_state(self):
        return self.state

    def set_state(self, s):
        self.state = s


def part_b(ctx, corr):
    from rqalpha.utils.persisit_helper import PersistHelper
    from rqalpha.core.events import EventBus
    from rqalpha.const import PERSIST_MODE
    rnd = random.Random(ctx.rnd.random())
    lines, impls, metas = [], [], []
    for _ in range(ctx.n(300, 5000)):
        prov = persist_mod.MemoryPersistProvider()
        persist_mod.STORE.clear()
        ph = PersistHelper(prov, EventBus(), PERSIST_MODE.REAL_TIME)
        objs = {"a": FakeObj(), "b": FakeObj()}
        for k, o in objs.items():
            ph.register(k, o)
        seq = {"a": [], "b": []}
        out = {"a": [], "b": []}
        for _ in range(rnd.randrange(1, 9)):
            for k, o in objs.items():
                v = rnd.choice([0, 1, 1, 2, 3])
                seq[k].append(v)
                o.state = None if v == 0 else (b"state-%d" % v)
            ph.persist()
            for k in objs:
                st = persist_mod.STORE.get(k)
                out[k].append(0 if st is None else int(st.decode().split("-")[1]))
        for k in objs:
            lines.append("PSEQ " + " ".join(map(str, seq[k])))
            impls.append(" ".join(map(str, out[k])))
            metas.append({"states": seq[k], "stored_after_each_persist": out[k]})
            ctx.evaluations += 1
            # monitor: the provider always holds the latest non-empty state
            latest = 0
            for i, v in enumerate(seq[k]):
                latest = v or latest
                if out[k][i] != latest:
                    ctx.witness("C14.2", {"kind": "provider_not_latest"}, "object states %s: after persistence point %d the provider holds state %s, the latest state is %s" % (seq[k], i + 1, out[k][i], latest),
                                {"states": seq[k], "stored": out[k]})
                    break
    if ctx.driver_ok:
        for line, impl, meta, rep in zip(lines, impls, metas, vlib.ask_driver(lines)):
            corr.add(rep.strip() == impl, dict(meta, model=rep.strip()))


def ord_tok(kind, part, cal, trd):
    return "%s.%s.%d.%d" % (kind, part, cal.date().toordinal() * 1440 + cal.hour * 60 + cal.minute, trd.date().toordinal() * 1440 + trd.hour * 60 + trd.minute)


LIFE = {"BEFORE_TRADING": "BT", "OPEN_AUCTION": "AUC", "BAR": "BAR", "AFTER_TRADING": "AT", "SETTLEMENT": "ST"}


def canon_slice(events):
    class T(object):
        pass
    t = T()
    t.events = events
    t.exc = None
    return isotrace.canon(t)[:-1]


class Ema(object):
    """a stateful indicator the strategy keeps in its context and CALLS like a function (picklable: module level)"""
    def __init__(self, alpha):
        self.alpha, self.n, self.value = alpha, 0, None

    def __call__(self, x):
        self.n += 1
        self.value = x if self.value is None else self.alpha * x + (1 - self.alpha) * self.value
        return self.value


def run_leg(S, cfgk, seed, with_an, start, end, persist, resume):
    """one leg of a stop/resume pair (module level: the resumed leg can also be run by harness/resume_worker.py in a fresh process)"""
    kk = dict(cfgk, start=start, end=end)
    kk["extra_mods"] = {"rqv_persist": {"enabled": True, "lib": "persist_mod"}} if persist else {}
    kk["base_extra"] = dict(cfgk.get("base_extra") or {}, **({"persist": True, "persist_mode": "real_time"} if persist else {}))
    persist_mod.RESUME[0] = resume
    an = {"enabled": True, "record": True, "plot": False, "benchmark": None} if with_an else False

    def script(tr, handlers):
        """strategy state that must survive the stop: a counter in the context, the universe, scheduler rules (weekly / monthly / daily)"""
        from rqalpha.environment import Environment
        init0, hb0 = handlers["init"], handlers["handle_bar"]
        ids_ = [s_["id"] for s_ in S["stocks"]]

        def init(context):
            import rqalpha.api as api
            init0(context)
            context.bars_seen = 0
            context.flag = False
            context.ema = Ema(0.3)
            context.positions_at_init = len(context.portfolio.positions)       # the mapping is touched before the state is restored
            env = Environment.get_instance()
            log = lambda name: (lambda c, b: tr.events.append(("SCHEDULED", {"cal": env.calendar_dt, "rule": name, "bars_seen": c.bars_seen})))
            api.scheduler.run_daily(log("daily"))
            api.scheduler.run_weekly(log("weekly_td2"), tradingday=2)
            api.scheduler.run_weekly(log("weekly_last"), tradingday=-1)
            api.scheduler.run_monthly(log("monthly_td3"), tradingday=3)
            # a rule at 09:05: inside the sessions of a subscribed future (09:01-10:15) only — it fires from the day the future is subscribed (bar 2) on
            api.scheduler.run_daily(log("daily_0905"), time_rule=api.physical_time(hour=9, minute=5))

        def handle_bar(context, bar_dict):
            import rqalpha.api as api
            env = Environment.get_instance()
            context.bars_seen += 1
            context.flag = (context.bars_seen % 3 == 0)
            ema_now = context.ema(float(context.bars_seen % 5))
            if context.bars_seen == 2 and S["futures"] and "future" in cfgk["accounts"]:
                api.subscribe(S["futures"][0]["id"])
            universe_at_bar_start = sorted(context.universe)          # what the previous bar (or the restored state) left
            if ids_:
                live = [i for i in ids_ if env.data_proxy.instrument(i).listed_at(env.trading_dt)] if hasattr(env.data_proxy.instrument(ids_[0]), "listed_at") else ids_
                if context.bars_seen % 4 == 3:
                    api.update_universe([])                            # going flat: the universe is emptied
                else:
                    keep_fut = [S["futures"][0]["id"]] if (context.bars_seen >= 2 and S["futures"] and "future" in cfgk["accounts"]) else []
                    api.update_universe((live[: 1 + context.bars_seen % max(1, len(live))] or live[:1]) + keep_fut)
            held_map = {k_: (v_.quantity if hasattr(v_, "quantity") else (v_.buy_quantity, v_.sell_quantity)) for k_, v_ in context.portfolio.positions.items()
                        if (v_.quantity if hasattr(v_, "quantity") else (v_.buy_quantity or v_.sell_quantity))}
            held_api = {p_.order_book_id: p_.quantity for p_ in api.get_positions() if p_.quantity and p_.direction.name == "LONG"}
            tr.events.append(("UNIVERSE_ORDER", {"cal": env.calendar_dt, "keys": list(bar_dict.keys()), "universe_at_bar_start": universe_at_bar_start, "bars_seen": context.bars_seen, "flag": context.flag, "ema": (context.ema.n, repr(ema_now)),
                                                 "portfolio_positions": sorted(held_map.items()), "get_positions_long": sorted(held_api.items())}))
            hb0(context, bar_dict)
        return dict(handlers, init=init, handle_bar=handle_bar)
    return trading.run_trading(random.Random(1), S, kk, reseed_key="c14-%d" % seed, analyser=an, script=script)


def part_c(ctx, corr):
    rnd = random.Random(ctx.rnd.random())
    n = ctx.n(6, 150)
    for k in range(n):
        seed = rnd.randrange(1, 10 ** 6)
        r2 = random.Random(seed)
        S = B.gen_market(r2, ndays=r2.randrange(6, 13), with_future=(k % 3 == 1), opts={"p_div": 0.6, "p_delist": 0.1})
        cfgk = trading.gen_config(r2, S, {"no_signal": True})
        if not cfgk["accounts"]:
            continue
        with_fee = (k % 5 == 4)
        with_an = (k % 6 == 3)
        if not with_fee:
            cfgk["sim"].pop("management_fee", None)
        elif "stock" in cfgk["accounts"]:
            cfgk["sim"]["management_fee"] = [("stock", 0.0005)]
        days = [d for d in S["cal"] if S["start"] <= d <= S["end"]]
        if len(days) < 3:
            continue

        go = lambda start, end, persist, resume: run_leg(S, cfgk, seed, with_an, start, end, persist, resume)
        full = go(days[0], days[-1], False, False)
        if full.exc is not None:
            ctx.stats["full_run_failed"] += 1
            continue
        stops = sorted(rnd.sample(range(0, len(days) - 1), min(2 if ctx.tier == "quick" else 4, len(days) - 1)))
        for si in stops:
            persist_mod.STORE.clear()
            p1 = go(days[0], days[si], True, False)
            store_at_stop = dict(persist_mod.STORE)
            p2 = go(days[si + 1], days[-1], True, True)
            ctx.evaluations += 1
            ctx.stats["resumes"] += 1
            rp = {"seed": seed, "cfg": {k_: str(v) for k_, v in cfgk.items()}, "stop_after": str(days[si]), "resume_on": str(days[si + 1]), "with_management_fee": with_fee, "analyser": with_an}
            if p1.exc is not None or p2.exc is not None:
                ctx.witness("C14.1", {"kind": "resumed_run_fails", "analyser": with_an}, "stop after %s: first part %r, resumed part %r" % (days[si], p1.exc, p2.exc), rp)
                continue
            if with_an:
                # the reports of the two parts together cover every trading day exactly once
                rep_days = []
                for part in (p1, p2):
                    rep = (part.result or {}).get("sys_analyser") if isinstance(part.result, dict) else None
                    if rep is not None:
                        rep_days += [ix.date() for ix in rep["portfolio"].index]
                if rep_days != days:
                    ctx.witness("C14.3", {"kind": "report_days", "analyser": True}, "stop after %s: the reports of the two parts hold records for %s, the trading days are %s"
                                % (days[si], [str(d) for d in rep_days], [str(d) for d in days]), rp)
            # ---- lifecycle events of the resumed run vs model execResume
            life = [(kd, e) for kd, e in p2.events if kd.split("_", 1)[0] in ("PRE", "POST") and kd.split("_", 1)[1] in LIFE]
            impl = " ".join(ord_tok(LIFE[kd.split("_", 1)[1]], kd.split("_", 1)[0], e["cal"], e["trd"]) for kd, e in life)
            if ctx.driver_ok:
                cal_o = [d.toordinal() for d in S["cal"]]
                rep = vlib.ask_driver(["EXECRESUME %d %s %d %d %d" % (len(cal_o), " ".join(map(str, cal_o)), days[si].toordinal(), days[si + 1].toordinal(), days[-1].toordinal())])[0]
                model = " ".join(t for t in rep.split() if ".MAIN." not in t)
                corr.add(model == impl, {"stop_after": str(days[si]), "implementation_events": impl[:400], "model_events": model[:400]})
            # ---- the stop day must be settled once
            n_settle_stop = len([1 for kd, e in p1.events + p2.events if kd == "POST_SETTLEMENT" and e["cal"].date() == days[si]])
            if n_settle_stop != 1:
                ctx.witness("C14.1", {"kind": "stop_day_settled_twice"}, "stop after %s and resume: the stop day is settled %d times (once at the end of the first run, once more at the start of the resumed run)"
                            % (days[si], n_settle_stop), rp)
            # ---- whatever is published for the stop day in the resumed run carries the stop day's date (the settlement replayed at its start)
            for kd, e in p2.events:
                if kd in ("PRE_SETTLEMENT", "POST_SETTLEMENT"):
                    if e["cal"].date() != days[si] or e["trd"].date() != days[si]:
                        ctx.witness("C14.1", {"kind": "replayed_settlement_misdated"}, "stop after %s: the resumed run settles the stop day with the clocks at %s / %s" % (days[si], e["cal"], e["trd"]), rp)
                        break
                else:
                    break
            # ---- the continuation equals the uninterrupted run
            d0 = days[si + 1]
            # the continuation starts with the first entry of the resume day (a reinvestment trade is published before the PRE_BEFORE_TRADING handler runs)
            idx = next(i for i, (kd, e) in enumerate(full.events) if (e.get("cal") or e.get("when")) is not None and (e.get("cal") or e.get("when")).date() == d0)
            tail = canon_slice(full.events[idx:])
            ev2 = list(p2.events)
            while ev2 and ev2[0][0] in ("PRE_SETTLEMENT", "POST_SETTLEMENT"):
                ev2.pop(0)
            res = canon_slice(ev2)
            d = isotrace.first_difference(tail, res)
            n_tr = len([1 for e in tail if e[0] == "TRADE"])
            ctx.nontrivial("resume", "future" in cfgk["accounts"], "stock" in cfgk["accounts"], with_fee, n_tr > 0, min(si, 2))
            # ---- the same resumed leg in a FRESH process (futures accounts, first stop point): class-level and module-level state of the
            # stopping process is gone, the persisted state alone must carry the run
            ctx.stats["continuations_equal" if d is None else "continuations_differ"] += 1
            if d is None and "future" in cfgk["accounts"] and (si == stops[0] or ctx.stats["resumes_in_a_fresh_process"] < 2):
                import pickle, subprocess, tempfile
                with tempfile.NamedTemporaryFile(dir="/dev/shm", suffix=".pkl", delete=False) as fh:
                    pickle.dump({"S": S, "cfgk": cfgk, "seed": seed, "with_an": with_an, "start": days[si + 1], "end": days[-1], "store": store_at_stop}, fh)
                try:
                    envp = dict(os.environ, PYTHONPATH=vlib.REPO + ":" + HARNESS)
                    pr = subprocess.run(["/venv/bin/python", os.path.join(HARNESS, "resume_worker.py"), fh.name],
                                        capture_output=True, text=True, env=envp, timeout=600)
                finally:
                    os.unlink(fh.name)
                if pr.returncode != 0:
                    raise RuntimeError("resume_worker failed: " + pr.stderr[-1500:])
                out = json.loads(pr.stdout.strip().splitlines()[-1])
                ctx.stats["resumes_in_a_fresh_process"] += 1
                ctx.evaluations += 1
                if out["exc"] is not None:
                    ctx.witness("C14.1", {"kind": "resumed_run_fails", "fresh_process": True}, "stop after %s: resumed in a fresh process: %s" % (days[si], out["exc"]), rp)
                else:
                    df = isotrace.first_difference(json.loads(json.dumps(tail)), out["trace"])
                    if df is not None:
                        i, a, b = df
                        sa, sb = json.dumps(a), json.dumps(b)
                        j = next((x for x in range(min(len(sa), len(sb))) if sa[x] != sb[x]), 0)
                        ctx.witness("C14.1", {"kind": "continuation_differs_in_a_fresh_process", "entry": (a or b)[0]},
                                    "stop after %s, resume on %s IN A FRESH PROCESS (the same resume inside the stopping process continues correctly): entry %d of the continuation (%s) differs "
                                    "from the uninterrupted run: ...%s | ...%s" % (days[si], d0, i, (a or b)[0], sa[max(0, j - 160): j + 60], sb[max(0, j - 160): j + 60]), dict(rp, entry=i, fresh_process=True))
            if d is not None:
                i, a, b = d
                sa, sb = json.dumps(a), json.dumps(b)
                j = next((x for x in range(min(len(sa), len(sb))) if sa[x] != sb[x]), 0)
                kind = "continuation_differs"
                if a and b and a[0] == "TRADE" and b[0] == "TRADE" and a[2].get("order_id") is None and b[2].get("order_id") is None \
                        and {k_ for k_ in a[2] if a[2][k_] != b[2].get(k_)} <= {"commission"}:
                    kind = "system_trade_commission_differs"
                ctx.witness("C14.1", {"kind": kind, "management_fee": with_fee, "entry": (a or b)[0] if with_fee else None},
                            "stop after %s, resume on %s: entry %d of the continuation (%s) differs from the uninterrupted run: ...%s | ...%s"
                            % (days[si], d0, i, (a or b)[0], sa[max(0, j - 160): j + 60], sb[max(0, j - 160): j + 60]), dict(rp, entry=i))


def run(ctx):
    corr_a = ctx.corr("state round trip", "fields lost by get_state -> set_state on a fresh Portfolio at every persistence point of real runs are within the fields the model loses (key tables regenerated from the source)")
    corr_b = ctx.corr("PersistHelper", "provider content after every persist() of the real PersistHelper on scripted state sequences vs model `persistOne` (regenerated skip rule)")
    corr_c = ctx.corr("resumed event sequence", "lifecycle events (PRE/POST with both clocks) of the resumed run vs model `execResume`")
    lost_model = set()
    if ctx.driver_ok:
        for t in vlib.ask_driver(["PKEYS"])[0].split():
            name, v = t.rsplit(":", 1)
            if v == "0" and name in MODEL2SNAP:
                lost_model.add(MODEL2SNAP[name])
    ctx.notes.append("fields the model loses with the current key tables: %s" % sorted(lost_model))
    part_a(ctx, corr_a, lost_model)
    part_b(ctx, corr_b)
    part_c(ctx, corr_c)


def replay(ctx, data):
    run(ctx)
    return "%d witnesses" % len(ctx.witnesses)

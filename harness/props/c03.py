"""C03 — net value, units, returns.  Step-sync of Portfolio.deposit_withdraw and the PRE_BEFORE_TRADING latch against the Lean
model; monitors: value sum, nav x units, flow neutrality, units frame, daily returns / compounding, per-account daily P&L identity."""
import tstream, monitors, sync_misc
LEVEL = "proof"
RULE = ("daily multi-account runs with deposits (receiving delay 0-2), withdrawals, finance/repay on consecutive days, corporate actions with holdings; "
        "one evaluation = one observation point or portfolio operation; non-trivial = flow or day boundary; distinct = by (operation kind, account, delay class)")
TRUSTED = ["harness wraps Portfolio.deposit_withdraw/_pre_before_trading at run time"]
ASSUMPTIONS = ["management fee is treated as an outgoing flow in the daily P&L identity (it is not part of transaction_cost in the code)",
               "the daily P&L identity is proved for one stock position over arbitrary trade lists; across corporate actions and delisting days it is monitored only (finding F10)"]


def run(ctx):
    corr = ctx.corr("Portfolio operations", "recorded Portfolio.deposit_withdraw / _pre_before_trading replayed on the model `Pf` from the same pre-state (units, static nav, total value, nav)")
    def extra(c, tr, ix):
        sync_misc.portfolio_sync(c, corr, tr, ix)
        for op in tr.rec.pf_ops:
            c.nontrivial(op["op"], op["args"].get("account"), op["args"].get("days"), op["raised"])
    import random, bundle as B, trading

    def gen(rnd, k):
        # every other run: dense corporate actions (a split and a cash dividend sharing the ex-date) on holdings that exist from the first day;
        # every fifth run: a share conversion at a delisting (the predecessor is bought a few days before by the stream's directed plan)
        if k % 5 == 4:
            S = B.gen_market(rnd, ndays=rnd.randrange(12, 26), n_stocks=3, opts={"p_div": 0.5, "p_split": 0.3, "p_delist": 0.6})
            dl = [s for s in S["stocks"] if s["delisted"] is not None]
            others = [s for s in S["stocks"] if s["delisted"] is None]
            if dl and others:
                # the data of a real conversion are consistent: on the predecessor's last day its close is the successor's close x ratio (the code marks the
                # successor's WHOLE position at predecessor's last price / ratio at the conversion; with unrelated prices that is a jump of the generator's making)
                pred, succ, ratio = dl[0], others[0], rnd.choice([1.0, 2.0])
                di = S["cal"].index(pred["delisted"]) - 1
                sb = succ["bars"].get(di)
                if sb is not None and di in pred["bars"]:
                    c = round(sb[2] * ratio, 2)
                    b0 = pred["bars"][di]
                    pred["bars"][di] = (b0[0], c, c, c, c, b0[5], c * b0[5], round(c * 1.1, 2), round(c * 0.9, 2))
                    S["trf"][pred["id"]] = {"successor": succ["id"], "share_conversion_ratio": ratio}
        else:
            S = B.gen_market(rnd, ndays=rnd.randrange(10, 26), **({"opts": {"p_div": 0.8, "p_split": 0.6, "p_same_ex": 0.7}} if k % 2 else {}))
        return S, trading.gen_config(rnd, S, {"p_init_pos": 0.5 if k % 2 else 0.2})
    tstream.stream(ctx, ctx.n(50, 2500), None, [monitors.c03_monitor], extra_sync=extra, gen=gen)


def replay(ctx, data):
    run(ctx)
    return "%d witnesses" % len(ctx.witnesses)

"""C03 — net value, units, returns.  Step-sync of Portfolio.deposit_withdraw and the PRE_BEFORE_TRADING latch against the Lean
model; monitors: value sum, nav x units, flow neutrality, units frame, daily returns / compounding, per-account daily P&L identity."""
import tstream, monitors, sync_misc
LEVEL = "proof"
RULE = ("daily multi-account runs with deposits (receiving delay 0-2), withdrawals, finance/repay on consecutive days, corporate actions with holdings; "
        "one evaluation = one observation point or portfolio operation; non-trivial = flow or day boundary; distinct = by (operation kind, account, delay class)")
TRUSTED = ["harness wraps Portfolio.deposit_withdraw/_pre_before_trading at run time"]
ASSUMPTIONS = ["management fee is treated as an outgoing flow in the daily P&L identity (it is not part of transaction_cost in the code)",
               "the daily P&L identity is proved for one stock position over arbitrary trade lists; across corporate actions and delisting days it is monitored only (finding F10)"]


def run(ctx):
    corr = ctx.corr("Portfolio operations", "recorded Portfolio.deposit_withdraw / _pre_before_trading replayed on the model `Pf` from the same pre-state (units, static nav, total value, nav)")
    def extra(c, tr, ix):
        sync_misc.portfolio_sync(c, corr, tr, ix)
        for op in tr.rec.pf_ops:
            c.nontrivial(op["op"], op["args"].get("account"), op["args"].get("days"), op["raised"])
    tstream.stream(ctx, ctx.n(50, 2500), None, [monitors.c03_monitor], extra_sync=extra,
                   # every other run: dense corporate actions (a split and a cash dividend sharing the ex-date) on holdings that exist from the first day
                   market_opts=lambda k: ({"opts": {"p_div": 0.8, "p_split": 0.6, "p_same_ex": 0.7}} if k % 2 else {}),
                   cfg_opts=lambda k: {"p_init_pos": 0.5 if k % 2 else 0.2})


def replay(ctx, data):
    run(ctx)
    return "%d witnesses" % len(ctx.witnesses)

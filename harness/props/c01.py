"""C01 — stock account ledger.  Correspondence: every Account operation recorded in real runs (trades, order announcements,
bar updates, before_trading incl. dividends/splits/reinvestment, settlement incl. delisting, deposits, financing) replayed on the
Lean model from the same pre-state (step-sync), inputs from the bundle.  Monitors: a ghost cash ledger, a holdings ledger and the
total-value formula recomputed independently from the published trades, API calls and bundle tables."""
import random, collections
import vlib, bundle as B, trading, acct_sync
from vlib import close

LEVEL = "proof"
RULE = ("whole daily runs on generated markets (1-3 stocks/ETF/STAR, optional futures; limit days, suspensions, zero-volume days, splits, dividends with all "
        "record/ex/payable orderings, delistings) with a scripted random strategy (share/value/target/lot/percent orders, limit and market, cancels, deposits "
        "with delay, withdrawals, finance/repay) under random fee/T+1/reinvestment/slippage/limit settings; one evaluation = one recorded account operation or "
        "one ledger observation; non-trivial = operation that changes the ledger; distinct = by (operation kind, branch signature)")
TRUSTED = ["harness wraps Account methods at run time (no change to /repo) and reads the ledger's fields to form pre/post states",
           "market inputs of each step (dividend, split, delisting, bar close) are taken from the generated bundle tables, not from rqalpha's look-ups"]
ASSUMPTIONS = ["reinvestment: `equity + cash` falls by exactly the fee stamped on the reinvestment trade (theorem bt_reinvest_neutral_up_to_fee; finding F11 — the fee was never deducted — is repaired)",
               "share conversion at delisting is handled in C12 (finding F5)"]

OPS = ["apply_trade", "_on_order_pending_new", "_on_order_unsolicited_update", "_on_bar", "_on_before_trading", "_on_settlement", "deposit_withdraw", "finance_repay"]


def scale(x):
    return max(1.0, abs(x))


def ledger_monitor(ctx, tr, ix):
    """ghost cash ledger + holdings ledger + value formula on the IMPLEMENTATION trace of the STOCK account"""
    S, cfgk = tr.S, tr.cfg
    if "stock" not in cfgk["accounts"]:
        return
    am = cfgk["accounts_mod"]
    fin_rate = am.get("financing_rate", 0)
    ghost = cfgk["accounts"]["stock"]           # total_cash + pending deposits
    qty = collections.Counter()
    for item in ((cfgk.get("base_extra") or {}).get("init_positions") or "").split(","):
        if item and item.split(":")[0] in ix.stock:
            qty[item.split(":")[0]] += int(item.split(":")[1])           # configured starting holdings
    prev = {}
    replay = {"seed_note": "trading stream", "cfg": {k: v for k, v in cfgk.items() if k != "accounts"}, "accounts": cfgk["accounts"],
              "run_seed": getattr(tr, "run_seed", None), "run_index": getattr(tr, "run_index", None)}
    n_obs = 0

    def check(where, snap, when):
        nonlocal ghost, n_obs
        a = snap.get("STOCK")
        if a is None or acct_sync.nan_in(a):
            return True
        n_obs += 1
        pend = sum(x for _, x in a["pending"])
        have = a["total_cash"] + pend
        ok = True
        if abs(have - ghost) > max(1e-6, 1e-9 * scale(ghost)):
            ctx.witness("C01.1", {"kind": "cash_ledger", "where": where.split(":")[0]},
                        "%s at %s: cash balance + deposits in transit = %r, ledger (start + flows - buys + sells - fees + dividends + payouts) = %r" % (where, when, have, ghost),
                        dict(replay, where=where, when=str(when)))
            ghost = have          # resynchronise so that one defect is reported once
            ok = False
        if abs(a["obs"]["cash"] + a["frozen"] - a["total_cash"]) > 1e-6 * scale(a["total_cash"]):
            ctx.witness("C01.1", {"kind": "cash_plus_frozen"}, "%s at %s: available %r + reserved %r != balance %r" % (where, when, a["obs"]["cash"], a["frozen"], a["total_cash"]), replay)
            ok = False
        eq = sum(h["long"]["last"] * h["long"]["qty"] + (h["long"]["div"][1] if h["long"]["div"] else 0) for h in a["holdings"])
        tv = a["total_cash"] + eq - a["liab"] - a["liab"] * fin_rate / 365 + pend
        if abs(tv - a["obs"]["total_value"]) > 1e-6 * scale(tv):
            ctx.witness("C01.3", {"kind": "total_value_formula"}, "%s at %s: total_value %r, cash + holdings at last price + receivable - liabilities + transit = %r" % (where, when, a["obs"]["total_value"], tv), replay)
            ok = False
        for h in a["holdings"]:
            if h["long"]["qty"] != qty[h["id"]]:
                ctx.witness("C01.2", {"kind": "holding_ledger"}, "%s at %s: %s quantity %s, net executed quantity carried through splits %s" % (where, when, h["id"], h["long"]["qty"], qty[h["id"]]), replay)
                qty[h["id"]] = h["long"]["qty"]
                ok = False
        return ok

    pre_bt = pre_st = None
    cur_day = None
    sys_fees = []
    last_accounts = None      # account snapshots of the previous observation point (user handlers run AFTER the system listeners of an event)
    for kind, e in tr.events:
        acc_now = e.get("after") if kind == "CALL" else e.get("accounts")
        when = e.get("when") if kind == "CALL" else e.get("cal")
        if when is not None and when.date() != cur_day:
            # first event of a new day (possibly the reinvestment TRADE published inside before_trading)
            cur_day = when.date()
            pre_bt = {"accounts": last_accounts} if last_accounts is not None else None
        if acc_now is not None:
            last_accounts = acc_now
        if kind == "CALL":
            api, args = e["api"], e["args"]
            if e["exc"] is None:
                if api == "deposit" and args[0] == "STOCK":
                    ghost += args[1]
                elif api == "withdraw" and args[0] == "STOCK":
                    ghost -= args[1]
                elif api == "finance":
                    ghost += args[0]
                elif api == "repay":
                    owed = ((e.get("before") or {}).get("STOCK") or {}).get("liab")
                    ghost -= args[0] if owed is None else min(args[0], owed)       # a repayment takes at most what is owed out of the account
                    if owed is not None and args[0] > owed:
                        ctx.stats["repayments_above_the_debt"] += 1
            elif api in ("deposit", "withdraw", "finance", "repay"):
                b0, b1 = (e.get("before") or {}).get("STOCK"), (e.get("after") or {}).get("STOCK")
                if b0 is not None and b1 is not None and (b0["total_cash"] != b1["total_cash"] or b0["pending"] != b1["pending"] or b0["liab"] != b1["liab"]):
                    ctx.witness("C01.1", {"kind": "failed_cash_call_booked", "api": api}, "%s%r raised %s but the STOCK account's cash went from %r to %r"
                                % (api, args, e["exc"], b0["total_cash"], b1["total_cash"]), replay)
                    ghost += (b1["total_cash"] + sum(x for _, x in b1["pending"])) - (b0["total_cash"] + sum(x for _, x in b0["pending"]))
            check("after " + api, e["after"], e["when"])
        elif kind == "TRADE":
            t = e["trade"]
            if t["book"] in ix.stock:
                sign = 1 if t["side"] == "BUY" else -1
                ghost += -sign * t["price"] * t["qty"] - (t["commission"] + t["tax"])
                qty[t["book"]] += sign * t["qty"]
                if e["order"] is None:
                    sys_fees.append((t, t["commission"] + t["tax"]))
                ctx.stats["monitored_trades"] += 1
                if e["order"] is not None:
                    check("TRADE", e["accounts"], e["cal"])
        elif kind == "POST_BEFORE_TRADING":
            # dividends paid out this morning: receivable present before (or booked and paid the same morning)
            today8 = B.d8(e["trd"].date())
            a0 = pre_bt["accounts"].get("STOCK") if pre_bt else None
            a1 = e["accounts"].get("STOCK")
            if a0 is not None and a1 is not None:
                for h in a0["holdings"]:
                    oid = h["id"]
                    if oid not in ix.stock:
                        continue
                    q0 = h["long"]["qty"]
                    paid = 0.0
                    if h["long"]["div"] and h["long"]["div"][0] == today8:
                        paid += h["long"]["div"][1]
                    for r in S["div"].get(oid, []):
                        if r[1] == ix.prev_day8(today8) and r[3] == today8 and q0:       # booked and payable the same morning
                            paid += q0 * (r[4] / r[5])
                    if paid:
                        ghost += paid
                        ctx.stats["dividends_paid"] += 1
                    # the receivable booked this morning: every dividend row whose record date was yesterday, on yesterday's closing holding
                    rows_b = [r for r in S["div"].get(oid, []) if r[1] == ix.prev_day8(today8)]
                    h1 = next((x for x in a1["holdings"] if x["id"] == oid), None)
                    if rows_b and q0 and h1 is not None and not h["long"]["div"] and all(r[3] > today8 for r in rows_b):
                        want_recv = q0 * sum(r[4] / r[5] for r in rows_b)
                        got_recv = h1["long"]["div"][1] if h1["long"]["div"] else 0.0
                        ctx.stats["receivables_checked" + ("_multi_row" if len(rows_b) > 1 else "")] += 1
                        if abs(got_recv - want_recv) > 1e-9 * scale(want_recv):
                            ctx.witness("C01.1", {"kind": "dividend_receivable_amount", "rows": min(len(rows_b), 2)},
                                        "%s on %s: %d dividend row(s) with record date %s pay %r per share in total on %s shares = %r, receivable booked %r"
                                        % (oid, today8, len(rows_b), rows_b[0][1], sum(r[4] / r[5] for r in rows_b), q0, want_recv, got_recv), replay)
                    for ex, ratio in S["split"].get(oid, []):
                        if ex == today8 * 1000000 and qty[oid]:
                            from decimal import Decimal, getcontext
                            qty[oid] = int(round(Decimal(qty[oid]) * Decimal(ratio)))
                            ctx.stats["splits_applied"] += 1
            if sys_fees and a1 is not None and not acct_sync.nan_in(a1):
                have = a1["total_cash"] + sum(x for _, x in a1["pending"])
                fees = sum(f for _, f in sys_fees)
                if fees > 0 and abs(have - ghost) > max(1e-6, 1e-9 * scale(ghost)) and abs(have - (ghost + fees)) <= max(1e-6, 1e-9 * scale(ghost)):
                    t0 = sys_fees[0][0]
                    ctx.witness("C01.1", {"kind": "reinvestment_fee_not_deducted"},
                                "dividend reinvestment on %s: trade %s x %s @ %r carries a fee of %r, but the cash balance %r was not reduced by it (ledger says %r)"
                                % (e["cal"].date(), t0["book"], t0["qty"], t0["price"], fees, have, ghost), replay)
                    ghost = have
            del sys_fees[:]
            check("POST_BEFORE_TRADING", e["accounts"], e["cal"])
        elif kind == "PRE_SETTLEMENT":
            pre_st = e
        elif kind == "POST_SETTLEMENT":
            a0 = (pre_st or e)["accounts"].get("STOCK")
            a1 = e["accounts"].get("STOCK")
            today8 = B.d8(e["trd"].date())
            if a0 is not None and a1 is not None:
                nxt8 = ix.next_day8(today8)
                forfeited = 0.0
                for h in a0["holdings"]:
                    s = ix.stock.get(h["id"])
                    if s is not None and s["delisted"] is not None and nxt8 >= B.d8(s["delisted"]) and h["long"]["qty"]:
                        if h["id"] in S["trf"]:
                            # conversion: q x ratio successor shares at avg/ratio each, paid for by handing in the holding: no cash moves
                            t = S["trf"][h["id"]]
                            qty[t["successor"]] += h["long"]["qty"] * t["share_conversion_ratio"]
                            ctx.stats["share_conversions"] += 1
                        elif am.get("cash_return_by_stock_delisted", True):
                            ghost += h["long"]["qty"] * h["long"]["last"]
                            ctx.stats["delisting_payouts"] += 1
                        else:
                            forfeited += h["long"]["qty"] * h["long"]["last"]       # payout switched off: forfeited by configuration
                        qty[h["id"]] = 0
                ghost -= a1["mgmt_fees"] - a0["mgmt_fees"]
                forced = (cfgk.get("base_extra") or {}).get("forced_liquidation", True)
                if forced and not a1["holdings"] and a1["total_cash"] == 0 and a0["obs"]["total_value"] - (a1["mgmt_fees"] - a0["mgmt_fees"]) - forfeited <= 1e-9:
                    ghost = sum(x for _, x in a1["pending"])          # forced liquidation (C02.5 / by design)
                    qty.clear()
            check("POST_SETTLEMENT", e["accounts"], e["cal"])
        elif kind in ("POST_BAR", "POST_AFTER_TRADING", "POST_OPEN_AUCTION", "ORDER_UNSOLICITED_UPDATE", "ORDER_CANCELLATION_PASS", "ORDER_CREATION_PASS"):
            check(kind, e["accounts"], e["cal"])
    ctx.evaluations += n_obs
    ctx.stats["ledger_observations"] += n_obs


def one_run(ctx, corrs, stock_only=False, dense=False, rs=None, k=None):
    rs = ctx.rnd.random() if rs is None else rs
    rnd = random.Random(rs)
    S = B.gen_market(rnd, ndays=rnd.randrange(10, 26), with_future=False if stock_only else None,
                     opts={"p_div": 0.8, "p_split": 0.5, "p_delist": 0.7 if (k is not None and k % 4 in (1, 3)) else 0.35, "p_special_div": 0.35,
                           "p_div_over_delist": 0.8 if (k is not None and k % 4 == 3) else 0} if dense else None)
    if not S["stocks"]:
        return
    if dense and k is not None and k % 4 == 1 and len(S["stocks"]) >= 2:
        # share conversion at delisting, with ratios that do not give whole successor shares
        dl = [s for s in S["stocks"] if s["delisted"] is not None]
        others = [s for s in S["stocks"] if s["delisted"] is None]
        if dl and others:
            S["trf"][dl[0]["id"]] = {"successor": others[0]["id"], "share_conversion_ratio": rnd.choice([0.3276, 1.37, 0.77, 0.5])}
    cfgk = trading.gen_config(rnd, S, {"p_init_pos": 0.2})
    if k is not None and k % 5 == 2:
        cfgk["accounts_mod"]["validate_stock_position"] = False       # short sales allowed (--short-stock): a holding may be negative; the ledger identities do not care
        S["trf"] = {}      # (no share conversions in these runs: the stream's successor prices are unrelated to the predecessor's, and a SHORT successor re-marked at the converted price
        #                    can wipe the account out — a forced liquidation the ledger cannot foresee from the state before the settlement)
    tr = trading.run_trading(rnd, S, cfgk)
    tr.run_seed, tr.run_index = rs, k
    ctx.stats["runs"] += 1
    if tr.exc is not None:
        ctx.stats["runs_ended_by_exception:" + type(tr.exc).__name__] += 1
    ix = acct_sync.Index(S, cfgk)
    ops = [op for op in tr.rec.ops if op["acct"] == "STOCK"]
    ctx.evaluations += len(ops)
    for op in ops:
        if not op["nested"] and op["pre"] is not None and not acct_sync.nan_in(op["pre"]) and op["pre"].get("total_cash") is not None:
            changed = acct_sync.diff_state(dict(op["pre"]), dict(op["post"], obs=op["pre"]["obs"])) if op["post"] else []
            if changed:
                ctx.nontrivial(op["op"], tuple(sorted({c[0].split(".")[-1] for c in changed}))[:6], op["args"].get("effect"), bool(op["args"].get("order")))
    bad = acct_sync.run_sync(ctx, corrs, ix, ops, ctx.stats)
    import tstream, world_sync
    world_sync.run_sync(ctx, tstream.world_corrs(ctx), tr, ix)       # the free-running composed model against the whole run
    for prev_op, op, d in acct_sync.chain_check(ops, ctx.stats):
        # creation of an EMPTY holding between two operations (matcher asking for the close-today amount) is neutral
        if all(x[0] == "holdings" for x in d):
            new = set(d[0][2]) - set(d[0][1])
            post_h = {h["id"]: h for h in op["pre"]["holdings"]}
            if set(d[0][1]) <= set(d[0][2]) and all(post_h[i]["long"]["qty"] == 0 and post_h[i]["short"]["qty"] == 0 for i in new):
                ctx.stats["empty_holding_created_between_ops"] += 1
                continue
        corrs["chain"].add(False, {"between": [prev_op["op"], op["op"]], "when": str(op["when"][0]), "differences": [(p, repr(m), repr(v)) for p, m, v in d[:4]]})
    corrs["chain"].cases += max(0, len(ops) - 1)
    ledger_monitor(ctx, tr, ix)
    import monitors
    monitors.marked_at_bar_monitor("C01.3", "STOCK")(ctx, tr, ix)
    monitors.positions_view_monitor("C01.2", "STOCK")(ctx, tr, ix)
    ctx.stats["trades"] += len([1 for k, _ in tr.events if k == "TRADE"])
    if len(ctx.samples) < 3 and ops:
        op = next((o for o in ops if o["op"] == "apply_trade" and not o["nested"]), ops[0])
        ctx.sample({"operation": op["op"], "when": str(op["when"][0]), "args": {k: v for k, v in op["args"].items() if k != "dt"},
                    "pre": {k: op["pre"][k] for k in ("total_cash", "frozen")} if op["pre"] else None,
                    "post": {k: op["post"][k] for k in ("total_cash", "frozen")} if op["post"] else None})


def run(ctx):
    corrs = {n: ctx.corr("Account." + n, "recorded calls of the real method replayed on the model from the same pre-state (all ledger fields and observers, 1e-9 relative; bit-equality counted)") for n in OPS}
    corrs["chain"] = ctx.corr("no unmodelled mutation", "between two recorded operations of an account its ledger does not change (post_k = pre_{k+1})")
    forced = getattr(ctx, "replay_run", None)
    if forced:
        k, rs = forced
        one_run(ctx, corrs, stock_only=(k % 3 == 0), dense=(k % 2 == 1), rs=rs, k=k)
        return
    for k in range(ctx.n(60, 3000)):
        one_run(ctx, corrs, stock_only=(k % 3 == 0), dense=(k % 2 == 1), k=k)


def replay(ctx, data):
    run(ctx)
    return "%d witnesses" % len(ctx.witnesses)

"""C08 — trading-day lifecycle, clocks, phases.
Correspondence: the complete published event sequence with both clocks of real runs (daily; minute on the stock minute grid with
scripted universe changes at arbitrary events) vs the Lean model of event source + executor; every order-placing API called in every
phase vs the decorator table regenerated from the source.  Monitors: the lifecycle specification evaluated on the recorded events."""
import datetime, random, re
import vlib, bundle as B, runner

LEVEL = "proof"
RULE = ("calendars with holidays and gaps; ranges starting/ending on non-trading days, before/after the data range, single-day ranges; strategies with "
        "random subsets of callbacks; minute runs with universe changes scripted at random events (before_trading, auction, bars incl. first/last, after_trading); "
        "every order-placing API x every phase; non-trivial = a run with >= 2 trading days or a universe change or a refused call; "
        "distinct = by (frequency, range class, callbacks subset, universe-change positions class) / (api, phase)")
TRUSTED = ["futures night sessions / data-source supplied minute lists are outside the model (stock minute grid only)"]
ASSUMPTIONS = ["published_eq_spec_1d is stated for runs whose days are consecutive trading days of the calendar (what get_trading_dates yields)",
               "1m: constant minute list per day (stock accounts); the event source's restart logic is modelled with an explicit universe-change script"]

EVENTS = ["PRE_BEFORE_TRADING", "BEFORE_TRADING", "POST_BEFORE_TRADING", "PRE_OPEN_AUCTION", "OPEN_AUCTION", "POST_OPEN_AUCTION",
          "PRE_BAR", "BAR", "POST_BAR", "PRE_AFTER_TRADING", "AFTER_TRADING", "POST_AFTER_TRADING", "PRE_SETTLEMENT", "SETTLEMENT", "POST_SETTLEMENT"]
KIND = {"BEFORE_TRADING": "BT", "OPEN_AUCTION": "AUC", "BAR": "BAR", "AFTER_TRADING": "AT", "SETTLEMENT": "ST"}
STOCK_MINUTES = list(range(571, 691)) + list(range(781, 901))


def absmin(dt):
    return dt.date().toordinal() * 1440 + dt.hour * 60 + dt.minute


def tok(name, cdt, tdt):
    part = "PRE" if name.startswith("PRE_") else ("POST" if name.startswith("POST_") else "MAIN")
    base = name.replace("PRE_", "", 1) if part == "PRE" else (name.replace("POST_", "", 1) if part == "POST" else name)
    return "%s.%s.%d.%d" % (KIND[base], part, absmin(cdt), absmin(tdt))


def lifecycle_run(ctx, corr, freq):
    from rqalpha.environment import Environment
    from rqalpha.core.events import EVENT
    from rqalpha.core.execution_context import ExecutionContext
    rnd = random.Random(ctx.rnd.random())
    ndays = rnd.randrange(6, 30) if freq == "1d" else rnd.randrange(3, 7)
    warm = rnd.randrange(0, 4)
    # daily runs: a universe member may be delisted inside the run (the universe drops it during AFTER_TRADING of that day)
    S = B.gen_market(rnd, ndays=ndays, warm=warm, n_stocks=2, with_future=False,
                     opts={"kinds": ["CS"], "p_delist": 0.5 if freq == "1d" else 0, "p_split": 0, "p_div": 0, "p_sus": 0})
    cal = S["cal"]
    # configured range: may start/end on non-trading days, before/after the data
    r = rnd.random()
    if r < 0.15:
        start, end = cal[0] - datetime.timedelta(days=rnd.randrange(1, 9)), cal[-1] + datetime.timedelta(days=rnd.randrange(1, 9))
        rclass = "wider-than-data"
    elif r < 0.3:
        i = rnd.randrange(len(cal))
        start = end = cal[i]
        rclass = "single-day"
    else:
        lo, hi = (cal[0] - datetime.timedelta(days=3)).toordinal(), (cal[-1] + datetime.timedelta(days=3)).toordinal()
        a = rnd.randrange(lo, hi + 1)
        b = rnd.randrange(a, hi + 1)
        if freq == "1m":
            b = min(b, a + 6)
        start, end = datetime.date.fromordinal(a), datetime.date.fromordinal(b)
        rclass = "%s-%s" % ("T" if start in cal else "N", "T" if end in cal else "N")
    if freq == "1m" and (end - start).days > 8:
        end = start + datetime.timedelta(days=8)
    ids = [s["id"] for s in S["stocks"]]
    published = []
    cb_log = []
    changes = []      # (kind, absmin) of source events during which the universe changed
    defined = {name: rnd.random() < 0.7 for name in ("before_trading", "open_auction", "handle_bar", "after_trading")}
    p_change = rnd.choice([0, 0.02, 0.1]) if freq == "1m" else rnd.choice([0, 0.3])
    uni = {"cur": 0, "scripted": False}
    whole_universe_first = freq == "1d" and rnd.random() < 0.7

    def maybe_change(kind):
        from rqalpha.api import update_universe
        env = Environment.get_instance()
        special = freq == "1m" and kind == "BAR" and (env.calendar_dt.hour * 60 + env.calendar_dt.minute) in (571, 900, 690, 781) and rnd.random() < 0.3
        if rnd.random() < p_change or special:
            uni["cur"] += 1
            uni["scripted"] = True
            update_universe([ids[uni["cur"] % 2]] if uni["cur"] % 3 else ids)
            uni["scripted"] = False
            changes.append((kind, absmin(env.calendar_dt)))

    def init(context):
        from rqalpha.api import subscribe_event
        env = Environment.get_instance()
        for name in EVENTS:
            def mk(name):
                def h(context, event):
                    published.append((name, env.calendar_dt, env.trading_dt))
                return h
            subscribe_event(getattr(EVENT, name), mk(name))

        def on_universe(context, event):
            if not uni["scripted"] and ExecutionContext.phase().name != "ON_INIT":        # the system dropped a delisted member
                changes.append(("AT", absmin(env.calendar_dt)))
                ctx.stats["delisted_universe_member_dropped"] += 1
        subscribe_event(EVENT.POST_UNIVERSE_CHANGED, on_universe)
        if whole_universe_first:
            from rqalpha.api import update_universe
            update_universe(ids)

    def mk_cb(name, kind):
        def f(context, bar_dict=None):
            cb_log.append((name, Environment.get_instance().calendar_dt, ExecutionContext.phase().name))
            maybe_change(kind)
        return f
    handlers = {"init": init}
    for name, kind in (("before_trading", "BT"), ("open_auction", "AUC"), ("handle_bar", "BAR"), ("after_trading", "AT")):
        if defined[name]:
            handlers[name] = mk_cb(name, kind)
    extra = {"rqv_minute": {"enabled": True, "lib": "minute_source"}} if freq == "1m" else None
    res, exc = runner.run_real(S, dict(accounts={"stock": 1e6}, frequency=freq, start=start, end=end, extra_mods=extra), handlers)
    ctx.evaluations += 1
    cal_o = [d.toordinal() for d in cal]
    days = [d for d in cal if start <= d <= end]
    if exc is not None:
        if not days and "no data" in str(exc).lower() or (not days):
            impl = "NODATA"
        else:
            raise RuntimeError("lifecycle run failed: %r" % (exc,))
    else:
        impl = " ".join([str(days[0].toordinal()), str(days[-1].toordinal())] + [tok(*p) for p in published]) if days else "NODATA"
    line = "EXEC %s %d %s %d %d %d %d %d %s %d %s" % (freq, len(cal_o), " ".join(map(str, cal_o)), cal_o[0], cal_o[-1], start.toordinal(), end.toordinal(),
                                                 len(STOCK_MINUTES) if freq == "1m" else 0, " ".join(map(str, STOCK_MINUTES)) if freq == "1m" else "",
                                                 2 * len(changes), " ".join("%s %d" % c for c in changes))
    line = re.sub(r"\s+", " ", line).strip()
    if ctx.driver_ok:
        rep = vlib.ask_driver([line])[0]
        ok = rep.strip() == impl.strip()
        case = {"frequency": freq, "range": "%s..%s" % (start, end), "trading_days": len(days), "callbacks": [k for k, v in defined.items() if v],
                "universe_changes": len(changes), "published": len(published)}
        if not ok:
            a, b = impl.split(), rep.split()
            i = next((k for k in range(min(len(a), len(b))) if a[k] != b[k]), min(len(a), len(b)))
            case.update({"first_difference_at": i, "impl": a[max(0, i - 2):i + 3], "model": b[max(0, i - 2):i + 3], "len_impl": len(a), "len_model": len(b)})
        corr.add(ok, case)
    if len(days) >= 2 or changes:
        ctx.nontrivial(freq, rclass, tuple(sorted(k for k, v in defined.items() if v)), min(len(changes), 3), len(days) > 1)
    ctx.stats["runs_" + freq] += 1
    ctx.stats["published_events"] += len(published)
    ctx.stats["universe_changes"] += len(changes)
    monitor_lifecycle(ctx, freq, days, published, cb_log, defined, start, end, changes)
    ctx.sample({"frequency": freq, "configured_range": "%s..%s" % (start, end), "trading_days": [str(d) for d in days][:4], "events": len(published),
                "universe_changes": len(changes)})


def monitor_lifecycle(ctx, freq, days, published, cb_log, defined, start, end, changes, grid=STOCK_MINUTES):
    replay = {"frequency": freq, "start": str(start), "end": str(end), "universe_changes": changes[:10]}

    def wit(clause, kind, what):
        ctx.witness(clause, {"kind": kind, "frequency": freq}, what + " (run %s..%s, %s)" % (start, end, freq), replay)
    # group by trading day
    by_day = {}
    for name, cdt, tdt in published:
        by_day.setdefault(tdt.date(), []).append((name, cdt, tdt))
    if sorted(by_day) != days:
        wit("C08.1", "days", "events published for days %s, trading days of the range are %s" % ([str(d) for d in sorted(by_day)][:6], [str(d) for d in days][:6]))
        return
    for d in days:
        names = [n for n, _, _ in by_day[d]]
        groups = []
        i = 0
        ok = True
        while i < len(names):
            base = names[i].replace("PRE_", "", 1)
            if names[i:i + 3] != ["PRE_" + base, base, "POST_" + base]:
                ok = False
                break
            groups.append((base, by_day[d][i + 1][1]))
            i += 3
        if not ok:
            wit("C08.1", "brackets", "day %s: PRE/main/POST bracketing broken near %s" % (d, names[max(0, i - 1):i + 4]))
            return
        kinds = [g[0] for g in groups]
        nbar = kinds.count("BAR")
        want = ["BEFORE_TRADING", "OPEN_AUCTION"] + ["BAR"] * nbar + ["AFTER_TRADING", "SETTLEMENT"]
        if kinds != want:
            wit("C08.1", "day_order", "day %s: phases %s" % (d, [k for k in kinds if k != "BAR"] + ["BAR x%d" % nbar]))
            return
        bars = [g[1] for g in groups if g[0] == "BAR"]
        if any(bars[k] >= bars[k + 1] for k in range(len(bars) - 1)):
            k = next(k for k in range(len(bars) - 1) if bars[k] >= bars[k + 1])
            wit("C08.2", "bar_order", "day %s: bar %s published after %s" % (d, bars[k + 1], bars[k]))
            return
        if freq == "1d" and nbar != 1:
            wit("C08.1", "bar_count", "day %s: %d bars at daily frequency" % (d, nbar))
        if freq == "1m" and grid is not None and [b.hour * 60 + b.minute for b in bars] != grid:
            wit("C08.2", "minute_grid", "day %s: %d bars, %d distinct, stock minute grid has %d" % (d, len(bars), len(set(bars)), len(STOCK_MINUTES)))
    for k in range(len(published) - 1):
        if published[k][1] > published[k + 1][1] or published[k][2] > published[k + 1][2]:
            wit("C08.3", "clock", "clock moved backwards between %s and %s" % (published[k], published[k + 1]))
            break
    # callbacks: once per corresponding event, in their phase; undefined ones never
    want_phase = {"before_trading": "BEFORE_TRADING", "open_auction": "OPEN_AUCTION", "handle_bar": "ON_BAR", "after_trading": "AFTER_TRADING"}
    ev_of = {"before_trading": "BEFORE_TRADING", "open_auction": "OPEN_AUCTION", "handle_bar": "BAR", "after_trading": "AFTER_TRADING"}
    for name in want_phase:
        calls = [c for c in cb_log if c[0] == name]
        n_ev = len([1 for n, _, _ in published if n == ev_of[name]])
        if defined[name] and len(calls) != n_ev:
            wit("C08.4", "callback_count", "%s invoked %d times for %d %s events" % (name, len(calls), n_ev, ev_of[name]))
        if any(c[2] != want_phase[name] for c in calls):
            wit("C08.4", "callback_phase", "%s ran in phase %s" % (name, {c[2] for c in calls}))


ORDER_APIS = ["order_shares", "order_lots", "order_value", "order_percent", "order_target_value", "order_target_percent", "order_target_portfolio",
              "buy_open", "sell_open", "buy_close", "sell_close", "order", "order_to", "submit_order"]


def phase_table_run(ctx, corr):
    """every order-placing API in every phase of a real run"""
    from rqalpha.environment import Environment
    from rqalpha.core.execution_context import ExecutionContext
    from rqalpha.core.events import EVENT
    rnd = random.Random(ctx.rnd.random())
    S = B.gen_market(rnd, ndays=4, warm=1, n_stocks=1, with_future=True,
                     opts={"kinds": ["CS"], "p_delist": 0, "p_split": 0, "p_div": 0, "p_sus": 0, "p_limit": 0, "p_thin": 0, "n_futures": 1, "p_expire": 0})
    stock = S["stocks"][0]["id"]
    fut = S["futures"][0]["id"]
    obs = []

    def probe(where):
        import rqalpha.api as api
        from rqalpha.const import SIDE
        phase = ExecutionContext.phase().name
        args = {"order_shares": (stock, 100), "order_lots": (stock, 1), "order_value": (stock, 2000), "order_percent": (stock, 0.01),
                "order_target_value": (stock, 3000), "order_target_percent": (stock, 0.02), "order_target_portfolio": ({stock: 0.03},),
                "buy_open": (fut, 1), "sell_open": (fut, 1), "buy_close": (fut, 1), "sell_close": (fut, 1),
                "order": (stock, 100), "order_to": (stock, 300), "submit_order": (stock, 100, SIDE.BUY)}
        for name in ORDER_APIS:
            f = getattr(api, name)
            ctx.evaluations += 1
            try:
                f(*args[name])
                out = "1"
            except RuntimeError as ex:
                out = "0" if "You cannot call" in str(ex) else "1"      # refused for the phase vs any other outcome
            except Exception as ex:
                out = "1"
            obs.append((name, phase, where, out))

    def init(context):
        from rqalpha.api import subscribe_event, subscribe
        import rqalpha.api as api
        subscribe(fut)
        probe("init")
        subscribe_event(EVENT.POST_BAR, lambda c, e: probe("subscribed POST_BAR handler"))
        api.scheduler.run_daily(lambda c, b: probe("scheduled bar-time function"))
        api.scheduler.run_daily(lambda c, b: probe("scheduled before_trading function"), time_rule="before_trading")

    res, exc = runner.run_real(S, dict(accounts={"stock": 1e7, "future": 1e7}),
                               {"init": init, "before_trading": lambda c: probe("before_trading"), "open_auction": lambda c, b: probe("open_auction"),
                                "handle_bar": lambda c, b: probe("handle_bar"), "after_trading": lambda c: probe("after_trading")})
    if exc is not None:
        raise RuntimeError("phase table run failed: %r" % (exc,))
    seen = {}
    for name, phase, where, out in obs:
        seen.setdefault((name, phase, where), set()).add(out)
    keys = sorted(seen)
    reps = vlib.ask_driver(["ALLOWED %s %s" % (k[0], k[1]) for k in keys]) if ctx.driver_ok else [None] * len(keys)
    for k, rep in zip(keys, reps):
        outs = seen[k]
        impl = "1" if outs == {"1"} else ("0" if outs == {"0"} else "MIXED")
        if rep is not None:
            corr.add(rep == impl, {"api": k[0], "phase": k[1], "where": k[2], "impl_allowed": impl, "table_allowed": rep})
        ctx.nontrivial("api-phase", k[0], k[1])
        if k[1] in ("ON_INIT", "BEFORE_TRADING", "AFTER_TRADING") and impl != "0":
            ctx.witness("C08.5", {"kind": "order_api_not_refused", "api": k[0], "phase": k[1]},
                        "%s(...) called in %s (phase %s) was not refused" % (k[0], k[2], k[1]), {"api": k[0], "phase": k[1], "where": k[2]})
        # the place decides, whatever phase label the run carried there: a function scheduled for before_trading is before-trading code
        if k[2] in ("init", "before_trading", "after_trading", "scheduled before_trading function") and impl != "0" and k[1] not in ("ON_INIT", "BEFORE_TRADING", "AFTER_TRADING"):
            ctx.witness("C08.5", {"kind": "order_api_not_refused", "api": k[0], "where": k[2]},
                        "%s(...) called in %s was not refused (the run labelled that code phase %s)" % (k[0], k[2], k[1]), {"api": k[0], "phase": k[1], "where": k[2]})
        if k[1] in ("OPEN_AUCTION", "ON_BAR", "SCHEDULED") and impl == "0":
            ctx.witness("C08.5", {"kind": "order_api_refused_while_trading", "api": k[0], "phase": k[1]},
                        "%s(...) was refused in %s" % (k[0], k[2]), {"api": k[0], "phase": k[1]})
    ctx.stats["api_phase_pairs"] += len(keys)


def mixed_minute_run(ctx):
    """minute frequency with a stock and a futures account: a future whose session opens earlier than the stock session is subscribed in
    before_trading / open_auction / a bar of some day (monitor only: the futures minute grid is outside the Lean model)"""
    from rqalpha.environment import Environment
    from rqalpha.core.events import EVENT
    from rqalpha.core.execution_context import ExecutionContext
    rnd = random.Random(ctx.rnd.random())
    S = B.gen_market(rnd, ndays=rnd.randrange(3, 6), warm=1, n_stocks=1, with_future=True,
                     opts={"kinds": ["CS"], "p_delist": 0, "p_split": 0, "p_div": 0, "p_sus": 0, "n_futures": 1, "p_expire": 0})
    fut = S["futures"][0]["id"]
    stock = S["stocks"][0]["id"]
    days = [d for d in S["cal"] if S["start"] <= d <= S["end"]]
    sub_day = rnd.randrange(0, len(days))
    sub_where = rnd.choice(["before_trading", "before_trading", "open_auction", "bar"])
    unsub_day = sub_day + 1 if (sub_day + 1 < len(days) and rnd.random() < 0.5) else None
    published, cb_log = [], []

    def init(context):
        from rqalpha.api import subscribe_event, update_universe
        env = Environment.get_instance()
        for name in EVENTS:
            subscribe_event(getattr(EVENT, name), (lambda nm: (lambda c, e: published.append((nm, env.calendar_dt, env.trading_dt))))(name))
        update_universe([stock])

    def act(where):
        def f(context, bar_dict=None):
            import rqalpha.api as api
            env = Environment.get_instance()
            cb_log.append(({"before_trading": "before_trading", "open_auction": "open_auction", "bar": "handle_bar"}[where], env.calendar_dt, ExecutionContext.phase().name))
            i = days.index(env.trading_dt.date())
            first_bar = where != "bar" or (env.calendar_dt.hour, env.calendar_dt.minute) == (9, 45)
            if i == sub_day and where == sub_where and first_bar and fut not in context.universe:
                api.subscribe(fut)
            if unsub_day is not None and i == unsub_day and where == "before_trading" and fut in context.universe:
                api.unsubscribe(fut)
        return f
    extra = {"rqv_minute": {"enabled": True, "lib": "minute_source"}}
    # the future's minutes (what the data source answers to get_trading_minutes_for): 09:01-10:15, 10:31-11:30, 13:31-15:00
    import numpy as np, minute_source
    fmins = list(range(541, 616)) + list(range(631, 691)) + list(range(811, 901))
    rows = [(int(d.strftime("%Y%m%d")) * 1000000 + (m // 60) * 10000 + (m % 60) * 100, 3000.0, 3000.0, 3000.0, 3000.0, 100.0, 3e6) for d in S["cal"] for m in fmins]
    minute_source.MIN.clear()
    minute_source.MIN[fut] = np.array(rows, dtype=np.dtype([("datetime", "<u8"), ("open", "<f8"), ("close", "<f8"), ("high", "<f8"), ("low", "<f8"), ("volume", "<f8"), ("total_turnover", "<f8")]))
    res, exc = runner.run_real(S, dict(accounts={"stock": 1e6, "future": 1e6}, frequency="1m", extra_mods=extra),
                               {"init": init, "before_trading": act("before_trading"), "open_auction": act("open_auction"), "handle_bar": act("bar")})
    ctx.evaluations += 1
    minute_source.MIN.clear()
    if exc is not None:
        raise RuntimeError("mixed minute run failed: %r" % (exc,))
    ctx.stats["runs_1m_mixed"] += 1
    ctx.nontrivial("1m-mixed", sub_where, sub_day == 0, unsub_day is not None)
    defined = {"before_trading": True, "open_auction": True, "handle_bar": True, "after_trading": False}
    monitor_lifecycle(ctx, "1m", days, published, cb_log, defined, days[0], days[-1], [("subscribe " + sub_where, sub_day)], grid=None)
    # the strategy's own clock: every callback of a day runs at or after the one before it
    for a, b in zip(cb_log, cb_log[1:]):
        if b[1] < a[1]:
            ctx.witness("C08.3", {"kind": "callback_clock_backwards", "frequency": "1m"}, "%s at %s ran after %s at %s (stock + futures accounts, %s subscribed in %s of day %d)"
                        % (b[0], b[1], a[0], a[1], fut, sub_where, sub_day), {"subscribe": sub_where, "day": sub_day})
            break


def merged_calendar_check(ctx, corr):
    """several registered trading calendars (exchange + inter-bank): the real TradingDatesMixin's merged calendar — what get_trading_dates answers from and the
    event source walks through — vs model `mergeCals`; every trading day exactly once"""
    import datetime
    import pandas as pd
    from rqalpha.data.trading_dates_mixin import TradingDatesMixin
    from rqalpha.const import TRADING_CALENDAR_TYPE
    rnd = ctx.rnd
    lines, cases = [], []
    for _ in range(ctx.n(40, 1500)):
        base = datetime.date(2020, 1, 1) + datetime.timedelta(days=rnd.randrange(0, 300))
        pool = [base + datetime.timedelta(days=i) for i in range(rnd.randrange(5, 40))]
        cals = []
        for _k in range(rnd.choice([1, 2, 2, 3])):
            cals.append(sorted(rnd.sample(pool, rnd.randrange(1, len(pool)))))
        if rnd.random() < 0.3 and len(cals) >= 2:
            cals[1] = list(cals[0])          # identical calendars: every day is in both
        types = [TRADING_CALENDAR_TYPE.EXCHANGE, TRADING_CALENDAR_TYPE.INTER_BANK, "THIRD"][:len(cals)]
        mix = TradingDatesMixin({t: pd.DatetimeIndex([pd.Timestamp(d) for d in c]) for t, c in zip(types, cals)})
        merged = [x.date().toordinal() for x in mix.merged_trading_calendars]
        dates = [x.date().toordinal() for x in mix.get_trading_dates(pool[0], pool[-1])]
        lines.append("MERGECAL %d %s" % (len(cals), " ".join("%d %s" % (len(c), " ".join(str(d.toordinal()) for d in c)) for c in cals)))
        cases.append((cals, merged, dates))
    reps = vlib.ask_driver(lines) if ctx.driver_ok else [None] * len(lines)
    for (cals, merged, dates), rep in zip(cases, reps):
        ctx.evaluations += 1
        shared = len(set.intersection(*[set(c) for c in cals])) if len(cals) > 1 else 0
        ctx.nontrivial("merged_calendar", len(cals), shared > 0)
        if rep is not None:
            model = [int(x) for x in rep.split()]
            corr.add(merged == model and dates == model, {"calendars": [[str(d) for d in c[:6]] for c in cals], "impl_merged": merged[:12], "impl_get_trading_dates": dates[:12], "model": model[:12]})
        if any(b <= a for a, b in zip(dates, dates[1:])):
            dup = next(a for a, b in zip(dates, dates[1:]) if b <= a)
            ctx.witness("C08.1", {"kind": "trading_day_listed_twice", "calendars": len(cals)}, "%d registered calendars sharing %d days: get_trading_dates lists %s twice — the event source would run that trading day twice"
                        % (len(cals), shared, datetime.date.fromordinal(dup)), {"calendars": [[str(d) for d in c] for c in cals]})
            return


def run(ctx):
    merged_calendar_check(ctx, ctx.corr("merged trading calendar", "real TradingDatesMixin with 1-3 registered calendars (merged calendar, get_trading_dates) vs model `mergeCals`"))
    c1 = ctx.corr("published sequence 1d", "every published PRE/main/POST event with both clocks of real daily runs vs model `execRun (source1d ...)` incl. `_adjust_start_date`")
    c2 = ctx.corr("published sequence 1m", "minute runs on the stock minute grid with scripted universe changes vs model `execRun (source1m script ...)`")
    c3 = ctx.corr("API x phase table", "every order-placing API called in every phase of a real run vs the decorator table regenerated from the source")
    for _ in range(ctx.n(40, 1500)):
        lifecycle_run(ctx, c1, "1d")
    for _ in range(ctx.n(6, 150)):
        lifecycle_run(ctx, c2, "1m")
    for _ in range(ctx.n(1, 5)):
        phase_table_run(ctx, c3)
    for _ in range(ctx.n(6, 150)):
        mixed_minute_run(ctx)


def replay(ctx, data):
    run(ctx)
    return "%d witnesses" % len(ctx.witnesses)

"""C20 — history windows, adjustment, calendar functions.
Correspondence: the real DataProxy / BaseDataSource / TradingDatesMixin / history_bars API (inside real runs on generated
bundles) vs the Lean model (Float instance), bit for bit.  Monitors: the window / adjustment / calendar specifications
evaluated directly on the implementation's answers from the scenario's own tables."""
import datetime, random, bisect
import numpy as np
import vlib, bundle as B, runner
from vlib import f2b, b2f, close

LEVEL = "proof"
RULE = ("generated calendars (holidays, gaps), bar tables with missing and zero-volume days, factor tables with 0-4 ex-dates; "
        "calls with bar counts 1..more than available, end dates inside/outside/between trading days, skip_suspended on/off, adjust pre/post/none, "
        "API calls from every phase of every day; non-trivial = window shorter than the table and (adjusted or filtered or clamped); "
        "distinct = by (call kind, clamp/inside/outside class, window-vs-n class, adjust type, number of factor periods crossed)")
TRUSTED = ["numpy/h5py/pandas plumbing below BaseDataSource is exercised, not modelled; weekly resampling ('1w') is not modelled"]
ASSUMPTIONS = ["adjust_spec holds for every factor table (finding F15, the end-points-only shortcut of adjust_bars, is repaired); tables that return to an earlier value stay in the stream",
               "theorems over exact rationals; implementation compared bit-for-bit with the Float instance of the same model text"]


def gen_scenario(rnd, nonmonotone=False, first_kind=None, week_off=False):
    ndays = rnd.randrange(12, 40)
    cal = B.calendar(rnd, ndays, None, week_off)         # week_off: a closure that covers a whole calendar week
    S = {"cal": cal, "stocks": [], "futures": [], "div": {}, "split": {}, "fac": {}, "sus": {}, "trf": {}, "warm": 0}
    for k in range(rnd.randrange(1, 4)):
        kind = first_kind if (first_kind and k == 0) else rnd.choice(["CS", "CS", "CS", "ETF", "ETF", "LOF"])      # every adjusting type the bundle serves (LOF: listed open-ended funds, funds.h5)
        oid = ("%06d.XSHE" % (k + 1)) if kind == "CS" else ("5100%02d.XSHG" % (k + 1)) if kind == "ETF" else ("1600%02d.XSHE" % (k + 1))
        listed_i = 0 if rnd.random() < 0.6 else rnd.randrange(0, ndays // 2)
        nev = rnd.choice([0, 1, 1, 2, 3, 4])
        ex_days = sorted(rnd.sample(range(listed_i + 1, ndays), min(nev, max(0, ndays - listed_i - 1))))
        fac = [(0, 1.0)]
        f = 1.0
        ratios = []
        for j, e in enumerate(ex_days):
            if nonmonotone and j >= 1 and rnd.random() < 0.7:
                r = 1.0 / ratios[-1]
            else:
                r = rnd.choice([1.5, 2.0, 1.2, 1.15, 1.0309278350515463, 1.1111111111111112])
            ratios.append(r)
            f = f * r
            fac.append((B.d14(cal[e]), f))
        bars = {}
        p = round(rnd.uniform(3, 80), 2)
        for i in range(listed_i, ndays):
            if rnd.random() < 0.05:
                continue        # missing bar
            if i in ex_days:
                p = round(p / ratios[ex_days.index(i)], 2)
            p = max(0.5, round(p * (1 + rnd.uniform(-0.05, 0.05)), 2))
            v = 0.0 if rnd.random() < 0.12 else float(rnd.choice([100, 5000, 123456, 1e6]))
            o = round(p * (1 + rnd.uniform(-0.02, 0.02)), 2)
            bars[i] = (B.d14(cal[i]), o, p, max(o, p), min(o, p), v, v * p, round(p * 1.1, 2), round(p * 0.9, 2))
        if not bars:
            bars[listed_i] = (B.d14(cal[listed_i]), p, p, p, p, 100.0, 100.0 * p, round(p * 1.1, 2), round(p * 0.9, 2))
        S["stocks"].append({"id": oid, "type": kind, "board": "MainBoard", "lot": 100.0, "bars": bars, "listed": cal[listed_i], "delisted": None, "tplus": 1})
        if rnd.random() < 0.9:
            S["fac"][oid] = fac
    S["start"] = cal[min(2, ndays - 1)]
    S["end"] = cal[-1]
    return S


def bars_line(S, stock):
    toks = []
    for i in sorted(stock["bars"]):
        b = stock["bars"][i]
        toks += [str(b[0] // 1000000)] + [f2b(x) for x in b[1:9]]
    return "%d %s" % (len(toks), " ".join(toks))


def facs_line(S, stock):
    fac = S["fac"].get(stock["id"])
    if fac is None:
        return "-"
    toks = []
    for d, f in fac:
        toks += [str(d // 1000000), f2b(f)]
    return "%d %s" % (len(toks), " ".join(toks))


def fmt_rows(arr, names):
    out = []
    for row in arr:
        out.append([int(row["datetime"]) // 1000000] + [float(row[n]) for n in names])
    return out


FIELDS9 = ["open", "close", "high", "low", "volume", "total_turnover", "limit_up", "limit_down"]


def spec_window(S, stock, end8, n, skip):
    rows = [stock["bars"][i] for i in sorted(stock["bars"])]
    if skip and stock["type"] == "CS":
        rows = [r for r in rows if r[5] > 0]
    rows = [r for r in rows if r[0] // 1000000 <= end8]
    return rows[-n:] if n > 0 else []


def factor_at(fac, d8):
    dates = [d // 1000000 for d, _ in fac]
    pos = bisect.bisect_right(dates, d8)
    return fac[pos - 1][1]


def one_scenario(ctx, S, nonmonotone, n_calls, corrs):
    from rqalpha.environment import Environment
    from rqalpha.api import history_bars
    c_cal, c_hist, c_api = corrs[:3]
    c_week = corrs[3] if len(corrs) > 3 else None
    rnd = random.Random(ctx.rnd.random())
    cal = S["cal"]
    cal8 = [B.d8(d) for d in cal]
    calline = "CAL %d %s" % (len(cal8), " ".join(map(str, cal8)))
    reqs = []   # (corr, line, impl_answer_string, case)
    ids = {s["id"]: s for s in S["stocks"]}

    def rand_date():
        r = rnd.random()
        if r < 0.5:
            return rnd.choice(cal)
        if r < 0.6:
            return cal[0] - datetime.timedelta(days=rnd.randrange(1, 9))
        if r < 0.7:
            return cal[-1] + datetime.timedelta(days=rnd.randrange(1, 9))
        return cal[0] + datetime.timedelta(days=rnd.randrange(0, (cal[-1] - cal[0]).days + 1))

    def ts8(x):
        return int(x.strftime("%Y%m%d"))

    def cal_calls(dp):
        for _ in range(n_calls):
            ctx.evaluations += 1
            d, e = rand_date(), rand_date()
            n = rnd.choice([1, 1, 1, 2, 3, 7, len(cal), len(cal) + 3])
            inside = d in cal
            # the date may arrive in any of the forms the API accepts — also with a time of day (pd.Timestamp(context.now)): the answer is a function of the DAY
            form = rnd.choice(["date"] * 5 + ["timestamp_with_time", "datetime_with_time", "str", "timestamp"])
            import pandas as pd
            tod = datetime.time(rnd.choice([9, 10, 14]), rnd.choice([31, 0, 59]))
            darg = {"date": d, "timestamp_with_time": pd.Timestamp(datetime.datetime.combine(d, tod)), "datetime_with_time": datetime.datetime.combine(d, tod),
                    "str": d.isoformat(), "timestamp": pd.Timestamp(d)}[form]
            ctx.stats["calendar_argument_form:" + form] += 1
            # --- implementation answers
            dates = [ts8(x) for x in dp.get_trading_dates(darg, e)]
            prev = ts8(dp.get_previous_trading_date(darg, n))
            nxt = ts8(dp.get_next_trading_date(darg, n))
            istd = bool(dp.is_trading_date(d))
            nunt = [ts8(x) for x in dp.get_n_trading_dates_until(darg, n)]
            cnt = int(dp.count_trading_dates(darg, e))
            d8, e8 = B.d8(d), B.d8(e)
            reqs.append((c_cal, "%s DATES %d %d" % (calline, d8, e8), " ".join(map(str, dates)), {"op": "get_trading_dates", "start": str(d), "end": str(e)}))
            reqs.append((c_cal, "%s PREV %d %d" % (calline, d8, n), str(prev), {"op": "get_previous_trading_date", "date": str(d), "n": n}))
            reqs.append((c_cal, "%s NEXT %d %d" % (calline, d8, n), str(nxt), {"op": "get_next_trading_date", "date": str(d), "n": n}))
            reqs.append((c_cal, "%s ISTD %d" % (calline, d8), "1" if istd else "0", {"op": "is_trading_date", "date": str(d)}))
            reqs.append((c_cal, "%s NUNTIL %d %d" % (calline, d8, n), " ".join(map(str, nunt)), {"op": "get_n_trading_dates_until", "date": str(d), "n": n}))
            reqs.append((c_cal, "%s COUNT %d %d" % (calline, d8, e8), str(cnt), {"op": "count_trading_dates", "start": str(d), "end": str(e)}))
            # --- monitors (calendar specification, independent of the model)
            want = [x for x in cal8 if d8 <= x <= e8]
            if dates != want:
                ctx.witness("C20.3", {"kind": "get_trading_dates"}, "get_trading_dates(%s, %s) = %s, calendar slice is %s" % (d, e, dates, want), {"cal": cal8, "start": d8, "end": e8})
            if d8 <= e8 and cnt != len(want):
                ctx.witness("C20.3", {"kind": "count_trading_dates"}, "count_trading_dates(%s, %s) = %s, slice length %s" % (d, e, cnt, len(want)), {"cal": cal8, "start": d8, "end": e8})
            if istd != (d8 in cal8):
                ctx.witness("C20.3", {"kind": "is_trading_date"}, "is_trading_date(%s) = %s" % (d, istd), {"cal": cal8, "date": d8})
            # the same day handed over as a datetime or a pandas Timestamp (what the calendar functions themselves return) is the same day
            import pandas as pd
            for form, arg in (("datetime", datetime.datetime.combine(d, datetime.time(0, 0))), ("Timestamp", pd.Timestamp(d))):
                other = bool(dp.is_trading_date(arg))
                reqs.append((c_cal, "%s ISTD %d" % (calline, d8), "1" if other else "0", {"op": "is_trading_date", "date": str(d), "argument_type": form}))
                if other != (d8 in cal8):
                    ctx.witness("C20.3", {"kind": "is_trading_date", "argument_type": form}, "is_trading_date(%s(%s)) = %s, is_trading_date(date) = %s" % (form, d, other, istd), {"cal": cal8, "date": d8, "argument_type": form})
            if inside:
                i = cal8.index(d8)
                p1 = ts8(dp.get_previous_trading_date(d, 1))
                n1 = ts8(dp.get_next_trading_date(d, 1))
                if i > 0:
                    if p1 != cal8[i - 1] or ts8(dp.get_next_trading_date(cal[i - 1], 1)) != d8:
                        ctx.witness("C20.3", {"kind": "next_prev"}, "next(prev(%s)) != %s (prev = %s)" % (d, d, p1), {"cal": cal8, "date": d8})
                if i + 1 < len(cal8):
                    if n1 != cal8[i + 1] or ts8(dp.get_previous_trading_date(cal[i + 1], 1)) != d8:
                        ctx.witness("C20.3", {"kind": "prev_next"}, "prev(next(%s)) != %s (next = %s)" % (d, d, n1), {"cal": cal8, "date": d8})
            # n-th previous / next against the calendar
            before = [x for x in cal8 if x < d8]
            wantp = before[-n] if len(before) >= n else cal8[0]
            after = [x for x in cal8 if x > d8]
            wantn = after[n - 1] if len(after) >= n else cal8[-1]
            if prev != wantp or nxt != wantn:
                ctx.witness("C20.3", {"kind": "nth_prev_next"}, "date %s n=%d: prev %s (want %s) next %s (want %s)" % (d, n, prev, wantp, nxt, wantn), {"cal": cal8, "date": d8, "n": n})
            ctx.nontrivial("cal", inside, d8 < cal8[0], d8 > cal8[-1], min(n, 4), d8 <= e8, len(want) > 0)
            ctx.stats["calendar_calls"] += 6

    def hist_calls(dp):
        for _ in range(n_calls):
            ctx.evaluations += 1
            st = rnd.choice(S["stocks"])
            dt = rand_date()
            n = rnd.choice([1, 2, 3, 5, 10, len(cal) + 5])
            skip = rnd.random() < 0.5
            adj = rnd.choice(["pre", "pre", "post", "none"])
            try:
                arr = dp.history_bars(st["id"], n, "1d", None, dt, skip_suspended=skip, include_now=False, adjust_type=adj, adjust_orig=dt)
                rows = fmt_rows(arr, FIELDS9)
                impl = "%d %s" % (len(rows), " ".join(" ".join([str(r[0])] + [f2b(x) for x in r[1:]]) for r in rows)) if rows else "0"
            except Exception as ex:
                rows = None
                impl = "NONE"
            line = "HIST %d 0 %d %s %d %d %d %s %s" % (st["type"] == "CS", skip, adj, n, B.d8(dt), B.d8(dt), bars_line(S, st), facs_line(S, st))
            reqs.append((c_hist, line, impl.strip(), {"op": "DataProxy.history_bars", "id": st["id"], "n": n, "dt": str(dt), "skip_suspended": skip, "adjust": adj,
                                                      "returned_dates": [r[0] for r in rows] if rows is not None else None}))
            monitor_hist(ctx, S, st, rows, B.d8(dt), B.d8(dt), n, skip, adj, nonmonotone, "DataProxy.history_bars")

    week_log = []

    def week_of(d8v):
        d = datetime.date(d8v // 10000, d8v // 100 % 100, d8v % 100)
        return (d - datetime.timedelta(days=d.weekday())).toordinal()

    def histw_calls(dp):
        """weekly history straight from the data proxy: values of the last n weekly bars (labels are not compared)"""
        names = ["open", "close", "high", "low", "volume", "total_turnover"]
        for _ in range(max(4, n_calls // 3)):
            st = rnd.choice(S["stocks"])
            dt = rand_date()
            n = rnd.choice([1, 2, 3, 5])
            skip = rnd.random() < 0.5
            inow = rnd.random() < 0.5
            adj = rnd.choice(["pre", "pre", "post", "none"])
            ctx.evaluations += 1
            # the daily window the weekly bars are built from; weeks without any bar inside it are outside the model (label mapping and de-duplication)
            rows_d = [st["bars"][i] for i in sorted(st["bars"])]
            if skip and st["type"] == "CS":
                rows_d = [r for r in rows_d if r[5] > 0]
            d8 = B.d8(dt)
            monday8 = int((dt - datetime.timedelta(days=dt.weekday())).strftime("%Y%m%d"))
            sel = [r for r in rows_d if (r[0] // 1000000 <= d8 if inow else r[0] // 1000000 < monday8)][-n * 5:]
            wk = [week_of(r[0] // 1000000) for r in sel]
            if not sel:
                continue
            # a week without any bar inside the window: the model does not cover it (label mapping and de-duplication); the specification monitor does
            empty_week = any(b - a > 7 for a, b in zip(wk, wk[1:]))
            if empty_week:
                ctx.stats["weekly_calls_with_an_empty_week_inside"] += 1
            try:
                arr = dp.history_bars(st["id"], n, "1w", names, dt, skip_suspended=skip, include_now=inow, adjust_type=adj, adjust_orig=dt)
                vals = [[float(row[nm]) for nm in names] for row in arr]
            except Exception as ex:
                ctx.stats["weekly_call_raises:" + type(ex).__name__] += 1
                continue
            line = "HISTW %d 0 %d %d %s %d %d %d %s %s" % (st["type"] == "CS", skip, inow, adj, n, d8, d8, bars_line(S, st), facs_line(S, st))
            if True:     # (since the repair of F44 a week without bars yields no weekly bar: the model's grouping of the daily window covers these windows too)
                week_log.append((line, vals, {"op": "DataProxy.history_bars 1w", "id": st["id"], "n": n, "dt": str(dt), "skip_suspended": skip, "include_now": inow, "adjust": adj}))
            # monitor (specification, independent of the model): each weekly bar aggregates the adjusted daily bars of its week
            fac = S["fac"].get(st["id"])
            groups = []
            for r in sel:
                if groups and week_of(groups[-1][-1][0] // 1000000) == week_of(r[0] // 1000000):
                    groups[-1].append(r)
                else:
                    groups.append([r])
            groups = groups[-n:]
            if len(vals) == len(groups):
                for g, v in zip(groups, vals):
                    def f_of(r):
                        if adj == "none" or fac is None:
                            return 1.0
                        base = factor_at(fac, d8) if adj == "pre" else 1.0
                        return factor_at(fac, r[0] // 1000000) / base
                    want = [g[0][1] * f_of(g[0]), g[-1][2] * f_of(g[-1]), max(r[3] * f_of(r) for r in g), min(r[4] * f_of(r) for r in g),
                            sum(r[5] * (1 / f_of(r)) for r in g), sum(r[6] for r in g)]
                    if any(abs(a - b) > 1e-9 * max(1.0, abs(b)) for a, b in zip(v, want)):
                        # (with a factor table that returns to an earlier value the daily window can come back unadjusted: finding F15, same signature as for '1d')
                        ctx.witness("C20.2", {"kind": "adjust", "nonmonotone_factors": True, "weekly": True} if nonmonotone else {"kind": "weekly_bar", "adjust": adj},
                                    "DataProxy.history_bars(%s, %d, '1w', end=%s, include_now=%s, adjust=%s): week of %s returned %r, aggregation of the adjusted daily bars %r"
                                    % (st["id"], n, d8, inow, adj, g[0][0] // 1000000, v, want), {"id": st["id"], "n": n, "dt": str(dt), "include_now": inow, "adjust": adj, "skip_suspended": skip,
                                       "window_days": [(r[0] // 1000000, r[5]) for r in sel], "returned": vals, "calendar": cal8})
                        break
            else:
                ctx.witness("C20.1", {"kind": "weekly_window_length"}, "DataProxy.history_bars(%s, %d, '1w', end=%s, include_now=%s): %d weekly bars, the daily window holds %d weeks"
                            % (st["id"], n, d8, inow, len(vals), len(groups)), {"id": st["id"], "n": n, "dt": str(dt), "include_now": inow})
            ctx.nontrivial("histw", inow, adj, len(groups), skip and st["type"] == "CS")

    api_log = []

    def init(context):
        env = Environment.get_instance()
        cal_calls(env.data_proxy)
        hist_calls(env.data_proxy)
        if c_week is not None:
            histw_calls(env.data_proxy)
        # a function scheduled for the before-trading slot is before-trading code: its windows end at the previous trading day too
        import rqalpha.api as api_
        api_.scheduler.run_daily(api_probe("scheduled_before_trading"), time_rule="before_trading")

    def api_probe(phase):
        def f(context, bar_dict=None):
            env = Environment.get_instance()
            for _ in range(2):
                st = rnd.choice(S["stocks"])
                if not st["listed"] <= env.trading_dt.date():
                    continue
                n = rnd.choice([1, 2, 4, 9, 60])
                skip = rnd.random() < 0.5
                adj = rnd.choice(["pre", "pre", "post", "none"])
                ctx.evaluations += 1
                names = ["open", "close", "high", "low", "volume", "total_turnover", "limit_up", "limit_down"]
                try:
                    arr = history_bars(st["id"], n, "1d", ["datetime"] + names, skip_suspended=skip, include_now=rnd.random() < 0.3, adjust_type=adj)
                except Exception as ex:
                    ctx.stats["api_exceptions"] += 1
                    continue
                rows = fmt_rows(arr, names)
                impl = "%d %s" % (len(rows), " ".join(" ".join([str(r[0])] + [f2b(x) for x in r[1:]]) for r in rows)) if rows else "0"
                td8, cd8 = B.d8(env.trading_dt.date()), B.d8(env.calendar_dt.date())
                before_open = phase in ("before_trading", "open_auction", "scheduled_before_trading")
                api_log.append((st, n, skip, adj, before_open, td8, cd8, impl.strip(), rows, phase))
        return f

    res, exc = runner.run_real(S, dict(accounts={"stock": 1e6}), {"init": init, "before_trading": api_probe("before_trading"),
                                                                 "open_auction": api_probe("open_auction"), "handle_bar": api_probe("handle_bar"),
                                                                 "after_trading": api_probe("after_trading")})
    if exc is not None:
        raise RuntimeError("run failed: %r" % (exc,))
    # API-level: first ask the model for the end date, then for the window
    if ctx.driver_ok:
        ends = vlib.ask_driver(["%s APIEND %d %d %d" % (calline, bo, td8, cd8) for (_, _, _, _, bo, td8, cd8, _, _, _) in api_log])
    else:
        ends = [None] * len(api_log)
    for (st, n, skip, adj, bo, td8, cd8, impl, rows, phase), end in zip(api_log, ends):
        # monitor: window must end at the previous trading day before the open, at the current day otherwise
        prevs = [x for x in cal8 if x < td8]
        want_end = (prevs[-1] if prevs else cal8[0]) if bo else cd8
        # the API adjusts relative to the CURRENT trading date (adjust_orig = env.trading_dt), also before the open
        monitor_hist(ctx, S, st, rows, want_end, td8, n, skip, adj, nonmonotone, "history_bars@" + phase)
        if end is not None and end != "NONE":
            line = "HIST %d 0 %d %s %d %d %d %s %s" % (st["type"] == "CS", skip, adj, n, int(end), td8, bars_line(S, st), facs_line(S, st))
            reqs.append((c_api, line, impl, {"op": "history_bars API", "phase": phase, "id": st["id"], "n": n, "trading_date": td8, "model_end": int(end),
                                             "skip_suspended": skip, "adjust": adj}))
    if ctx.driver_ok and week_log and c_week is not None:
        for (line, vals, case), rep in zip(week_log, vlib.ask_driver([w[0] for w in week_log])):
            toks = rep.split()
            ok = toks[0] != "NONE" and int(toks[0]) == len(vals)
            if ok:
                for k_, v in enumerate(vals):
                    m = [b2f(x) for x in toks[1 + 9 * k_ + 1: 1 + 9 * k_ + 7]]       # open close high low volume turnover
                    # first/last/max/min are bit-exact; the sums are compared to 1e-12 (pandas sums with compensation)
                    if m[:4] != v[:4] or any(abs(a - b) > 1e-12 * max(1.0, abs(b)) for a, b in zip(m[4:], v[4:])):
                        ok = False
            c_week.add(ok, dict(case, impl=repr(vals)[:300], model=rep[:300]) if not ok else case)
    replies = vlib.ask_driver([r[1] for r in reqs]) if ctx.driver_ok else []
    for (corr, line, impl, case), rep in zip(reqs, replies):
        ok = rep.strip() == impl
        corr.add(ok, dict(case, impl=impl[:300], model=rep[:300]) if not ok else case)


def monitor_hist(ctx, S, st, rows, end8, orig8, n, skip, adj, nonmonotone, where):
    """window + adjustment specification on the implementation's answer"""
    if rows is None:
        ctx.witness("C20.1", {"kind": "history_raises"}, "%s raised for %s n=%d end=%s" % (where, st["id"], n, end8), {"id": st["id"]})
        return
    want = spec_window(S, st, end8, n, skip)
    got_dates = [r[0] for r in rows]
    want_dates = [r[0] // 1000000 for r in want]
    total = len(st["bars"])
    fac = S["fac"].get(st["id"])
    crossed = 0
    if fac is not None and want:
        crossed = len({factor_at(fac, d) for d in want_dates} | {factor_at(fac, orig8)}) - 1
    if len(want) < total:
        ctx.nontrivial("hist", where.split("@")[0], len(want) < n, skip and st["type"] == "CS", adj, min(crossed, 3), where.split("@")[-1])
    ctx.stats["history_calls"] += 1
    if got_dates != want_dates:
        ctx.witness("C20.1", {"kind": "window", "where": where.split("@")[-1]}, "%s(%s, n=%d, end=%s, skip=%s): dates %s, specification %s" % (where, st["id"], n, end8, skip, got_dates, want_dates),
                    {"id": st["id"], "n": n, "end": end8, "skip": skip})
        return
    if fac is None or adj == "none":
        ratio = lambda d: 1.0
    else:
        base = factor_at(fac, orig8) if adj == "pre" else 1.0
        ratio = lambda d: factor_at(fac, d) / base
    for r, w in zip(rows, want):
        k = ratio(r[0])
        # rows: [date, open, close, high, low, volume, total_turnover, limit_up, limit_down]
        exp = [w[1] * k, w[2] * k, w[3] * k, w[4] * k, w[5] * (1 / k), w[6], w[7] * k, w[8] * k]
        if not all(close(a, b, 1e-12, 1e-12) for a, b in zip(r[1:], exp)):
            sig = {"kind": "adjust", "nonmonotone_factors": bool(nonmonotone)}
            ctx.witness("C20.2", sig, "%s(%s, end=%s, adjust=%s): bar %s returned %r, specification (x F(date)/F(now) = %r) %r" % (where, st["id"], end8, adj, r[0], r[1:], k, exp),
                        {"id": st["id"], "n": n, "end": end8, "adjust": adj, "factors": fac})
            return
    if want and fac is not None and adj == "pre" and factor_at(fac, want_dates[-1]) == factor_at(fac, orig8):
        # most recent bar unadjusted
        if [f2b(x) for x in rows[-1][1:]] != [f2b(x) for x in want[-1][1:9]]:
            ctx.witness("C20.2", {"kind": "latest_bar_adjusted"}, "%s: bar in the current factor period was changed" % where, {"id": st["id"]})
    ctx.sample({"call": where, "id": st["id"], "n": n, "end": end8, "skip_suspended": skip, "adjust": adj, "returned_dates": got_dates[:6]})


def run(ctx):
    corrs = (ctx.corr("calendar functions", "TradingDatesMixin via DataProxy vs model (get_trading_dates, prev/next n, is_trading_date, n_until, count)"),
             ctx.corr("DataProxy.history_bars", "window + skip_suspended + adjust_bars on generated bar/factor tables vs model `historyBars`, bit-exact"),
             ctx.corr("history_bars API by phase", "end-date rule of the API (previous trading day before the open) vs model `apiEndDate` + `historyBars`, bit-exact"),
             ctx.corr("DataProxy.history_bars '1w'", "values of the weekly bars (daily window, adjustment of the daily bars, aggregation per calendar week) vs model `historyBarsWeekly`; first/last/max/min bit-exact, sums to 1e-12"))
    n_scen = ctx.n(10, 300)
    for k in range(n_scen):
        nonmono = (k % 5 == 4)
        S = gen_scenario(random.Random(ctx.rnd.random()), nonmonotone=nonmono, first_kind=["CS", "ETF", "LOF"][k % 3], week_off=(k % 2 == 1))
        one_scenario(ctx, S, nonmono, ctx.n(40, 60) if ctx.tier == "quick" else 60, corrs)


def replay(ctx, data):
    run(ctx)
    return "%d witnesses" % len(ctx.witnesses)

"""C09 — buying power and reserved cash.  Step-sync of reserve / release operations (PENDING_NEW, fills, unsolicited updates,
cancellations) of both account types and of the cash validator against the Lean model; monitors: reserved = sum of unfilled shares
of open reserves, non-negativity, acceptance => covered, non-negative balance after opening fills."""
import tstream, monitors, sync_misc, minute_stream
LEVEL = "proof"
RULE = ("daily runs with several concurrent orders per bar sharing volume caps, partial fills then cancels, rejects inside the matcher, expiry at the close, "
        "exact-fit orders (order_value(cash)), both account types; non-trivial = operation changing the reserve; distinct = by (operation, branch)")
TRUSTED = ["harness wraps Account methods and CashValidator.validate_submission at run time"]
ASSUMPTIONS = ["C09.3 is proved for stock buys (fill price <= frozen price); a futures SELL-OPEN limit order filled above its limit needs more margin than reserved (finding F16)",
               "a repeated cancel / a cancel of an auction order under next_bar releases twice (findings F23, F4): the invariant assumes each final transition is announced once"]


def run(ctx):
    corrs = tstream.make_corrs(ctx, ops=["apply_trade", "_on_order_pending_new", "_on_order_unsolicited_update"])
    vc = {"cash": ctx.corr("CashValidator", "every recorded decision of the real cash validator vs model `cashVeto` on the same order, cost and cash")}
    tstream.stream(ctx, ctx.n(60, 3000), corrs, [monitors.c09_monitor], extra_sync=lambda c, tr, ix: sync_misc.validators_sync(c, vc, tr, ix),
                   cfg_opts=lambda k: ({"trade_handler_acts": True} if k % 2 else {"p_init_pos": 0.5}))      # even runs: configured starting holdings (margin / cash from the first day)
    # a futures account that STARTS with positions, as the first run of a fresh process: the margin of the configured holdings must count against the
    # available cash from the first order on (the class-level margin shortcut of a process that has not seen a futures position yet)
    import random, bundle as B, trading
    rnd = random.Random(ctx.rnd.random())
    for _ in range(ctx.n(2, 30)):
        seed = rnd.randrange(1, 10 ** 6)
        r2 = random.Random(seed)
        S = B.gen_market(r2, ndays=r2.randrange(6, 12), with_future=True, n_stocks=0, opts={"p_expire": 0.0, "n_futures": 1})
        cfgk = trading.gen_config(r2, S, {"no_signal": True})
        f0 = S["futures"][0]
        first = f0["bars"].get(S["warm"]) or next(iter(f0["bars"].values()))
        # a small account: the margin of the starting lots is most of it, so that an opening order larger than what is really available gets sent
        lots = r2.choice([3, 5, -4])
        cfgk["accounts"] = {"future": round(abs(lots) * first[2] * f0["mult"] * f0["info"]["margin_rate"] * (cfgk.get("base_extra") or {}).get("margin_multiplier", 1) * r2.uniform(1.3, 2.0), 2)}
        cfgk["base_extra"] = dict(cfgk.get("base_extra") or {}, init_positions="%s:%d" % (f0["id"], lots))
        tstream.fresh_process_run(ctx, S, cfgk, seed, ["c09_monitor"], "futures account starting from configured positions %s" % cfgk["base_extra"]["init_positions"])
    # minute frequency (current_bar / next_bar matching): reserve monitor only
    minute_stream.stream(ctx, ctx.n(3, 100), [monitors.c09_monitor])


def replay(ctx, data):
    run(ctx)
    return "%d witnesses" % len(ctx.witnesses)

"""C09 — buying power and reserved cash.  Step-sync of reserve / release operations (PENDING_NEW, fills, unsolicited updates,
cancellations) of both account types and of the cash validator against the Lean model; monitors: reserved = sum of unfilled shares
of open reserves, non-negativity, acceptance => covered, non-negative balance after opening fills."""
import tstream, monitors, sync_misc, minute_stream
LEVEL = "proof"
RULE = ("daily runs with several concurrent orders per bar sharing volume caps, partial fills then cancels, rejects inside the matcher, expiry at the close, "
        "exact-fit orders (order_value(cash)), both account types; non-trivial = operation changing the reserve; distinct = by (operation, branch)")
TRUSTED = ["harness wraps Account methods and CashValidator.validate_submission at run time"]
ASSUMPTIONS = ["C09.3 is proved for stock buys (fill price <= frozen price); a futures SELL-OPEN limit order filled above its limit needs more margin than reserved (finding F16)",
               "a repeated cancel / a cancel of an auction order under next_bar releases twice (findings F23, F4): the invariant assumes each final transition is announced once"]


def run(ctx):
    corrs = tstream.make_corrs(ctx, ops=["apply_trade", "_on_order_pending_new", "_on_order_unsolicited_update"])
    vc = {"cash": ctx.corr("CashValidator", "every recorded decision of the real cash validator vs model `cashVeto` on the same order, cost and cash")}
    tstream.stream(ctx, ctx.n(60, 3000), corrs, [monitors.c09_monitor], extra_sync=lambda c, tr, ix: sync_misc.validators_sync(c, vc, tr, ix),
                   cfg_opts=lambda k: ({"trade_handler_acts": True} if k % 2 else {"p_init_pos": 0.5}))      # even runs: configured starting holdings (margin / cash from the first day)
    # minute frequency (current_bar / next_bar matching): reserve monitor only
    minute_stream.stream(ctx, ctx.n(3, 100), [monitors.c09_monitor])


def replay(ctx, data):
    run(ctx)
    return "%d witnesses" % len(ctx.witnesses)

"""C12 — corporate actions, delisting, expiry are value-neutral.  Step-sync of before_trading / settlement of real runs
(dividends with every record/ex/payable ordering, splits, reinvestment, delisting payout / forfeit, futures expiry, share conversion)
against the Lean model; monitor: total value immediately before = immediately after each such step (up to the whole-share rounding of a
split, the daily interest and the management fee)."""
import random
import tstream, monitors, bundle as B, trading
LEVEL = "proof"
RULE = ("daily runs with dense corporate actions (p_div, p_split, p_delist raised; overlapping dividend windows and share conversions in dedicated streams), "
        "odd-lot holdings, ratios {0.5,1.15,1.2,1.5,2}, reinvestment on/off, payout on/off, futures expiry; non-trivial = a step with an action and a holding; "
        "distinct = by (set of actions in the step, reinvestment)")
TRUSTED = ["harness wraps Account._on_before_trading/_on_settlement; dividend/split/delisting inputs come from the generated bundle tables"]
ASSUMPTIONS = ["a split is neutral up to the rounding to whole shares (bound |q' - q*ratio| <= 1/2 checked)",
               "overlapping record->payable windows lose the earlier dividend (finding F21); share conversion jumps by (last - avg) x q (finding F5)"]


def gen(rnd, k):
    opts = {"p_div": 0.8, "p_split": 0.5, "p_delist": 0.35, "p_expire": 0.6, "p_special_div": 0.35}     # special dividends: two rows sharing a record date
    if k % 7 == 6:
        opts["overlap_div"] = True
    if k % 4 == 3:
        opts.update(p_delist=0.6, p_div_over_delist=0.8)      # a dividend still receivable when the stock is delisted
    if k % 5 == 4:
        opts["p_delist"] = 0.5         # the runs with a share conversion need a stock that delists inside the run and one that does not
    S = B.gen_market(rnd, ndays=rnd.randrange(12, 26), opts=opts, **({"n_stocks": 3} if k % 5 == 4 else {}))
    if k % 5 == 4 and len(S["stocks"]) >= 2:
        # share conversion: the first delisting stock converts into another stock
        dl = [s for s in S["stocks"] if s["delisted"] is not None]
        others = [s for s in S["stocks"] if s["delisted"] is None]
        if dl and others:
            ratio = rnd.choice([0.5, 1.0, 2.0, 0.3276])
            S["trf"][dl[0]["id"]] = {"successor": others[0]["id"], "share_conversion_ratio": ratio}
            # the data of a real conversion are consistent: on the predecessor's last day its close is the successor's close x ratio (the code re-marks the successor's WHOLE
            # position at predecessor's last price / ratio; with unrelated prices everything that reads that mark before the next bar — a reinvestment the next morning — is off)
            di = S["cal"].index(dl[0]["delisted"]) - 1
            sb = others[0]["bars"].get(di)
            if sb is not None and di in dl[0]["bars"]:
                c = round(sb[2] * ratio, 2)
                b0 = dl[0]["bars"][di]
                dl[0]["bars"][di] = (b0[0], c, c, c, c, b0[5], c * b0[5], round(c * 1.1, 2), round(c * 0.9, 2))
    if k % 6 == 5:
        S["_old_div_layout"] = True        # dividend tables without the book_closure_date column
    cfgk = trading.gen_config(rnd, S, {"p_reinvest": 0.7, "p_init_pos": 0.2, "pf_roundtrip": k % 3 == 2})
    return S, cfgk


def run(ctx):
    corrs = tstream.make_corrs(ctx, ops=["_on_before_trading", "_on_settlement"])
    tstream.stream(ctx, ctx.n(60, 3000), corrs, [monitors.c12_monitor], gen=gen)


def replay(ctx, data):
    run(ctx)
    return "%d witnesses" % len(ctx.witnesses)

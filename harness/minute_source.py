"""Harness-side mod: a data source that adds minute bars on top of rqalpha's BaseDataSource (the open-source data source
has none).  Minute-bar ACCESS is the harness's; the minute LOGIC under test (event source, executor, broker, matcher,
scheduler) is rqalpha's.  Enable with  mod: {"rqv_minute": {"enabled": True, "lib": "minute_source"}}.
MIN maps order_book_id -> numpy structured array of minute bars (datetime uint64 YYYYMMDDHHMMSS, same fields as day bars)."""
import numpy as np, datetime
from rqalpha.interface import AbstractMod
from rqalpha.data.base_data_source import BaseDataSource
from rqalpha.utils.datetime_func import convert_date_to_int, convert_dt_to_int

MIN = {}


class MinuteDS(BaseDataSource):
    def get_bar(self, instrument, dt, frequency):
        if frequency == '1d':
            return super().get_bar(instrument, dt, frequency)
        bars = MIN.get(instrument.order_book_id)
        if bars is None or len(bars) == 0:
            return None
        key = np.uint64(convert_dt_to_int(dt))
        pos = bars['datetime'].searchsorted(key)
        if pos >= len(bars) or bars['datetime'][pos] != key:
            return None
        return bars[pos]

    def get_trading_minutes_for(self, instrument, trading_dt):
        bars = MIN.get(instrument.order_book_id)
        if bars is None:
            return []
        d = np.uint64(convert_date_to_int(trading_dt))
        m = bars['datetime']
        return [int(x) for x in m[(m >= d) & (m < d + np.uint64(1000000))]]

    def available_data_range(self, frequency):
        return super().available_data_range('1d')

    def history_bars(self, instrument, bar_count, frequency, fields, dt, skip_suspended=True, include_now=False,
                     adjust_type='pre', adjust_orig=None):
        if frequency != '1m':
            return super().history_bars(instrument, bar_count, frequency, fields, dt, skip_suspended, include_now, adjust_type, adjust_orig)
        bars = MIN[instrument.order_book_id]
        i = bars['datetime'].searchsorted(np.uint64(convert_dt_to_int(dt)), side='right')
        b = bars[max(0, i - bar_count):i]
        return b if fields is None else b[fields]

    def current_snapshot(self, instrument, frequency, dt):
        raise NotImplementedError

    def get_open_auction_bar(self, instrument, dt):
        day = super().get_bar(instrument, dt, '1d')
        if day is None:
            bar = dict.fromkeys(self.OPEN_AUCTION_BAR_FIELDS, np.nan)
        else:
            bar = {k: day[k] if k in day.dtype.names else np.nan for k in self.OPEN_AUCTION_BAR_FIELDS}
        bar["last"] = bar["open"]
        return bar


class Mod(AbstractMod):
    def start_up(self, env, mod_config):
        env.set_data_source(MinuteDS(env.config.base.data_bundle_path, getattr(env.config.base, "future_info", {})))

    def tear_down(self, code, exception=None):
        pass


def load_mod():
    return Mod()

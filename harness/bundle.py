"""Synthetic data bundle: scenario generator (market data) and writer of the files BaseDataSource reads.
Everything random derives from the `random.Random` handed in.  Layout: DESIGN.md Appendix B."""
import os, json, pickle, datetime, shutil
import numpy as np, h5py


def d8(d):
    return int(d.strftime("%Y%m%d"))


def d14(d):
    return d8(d) * 1000000


SDT = np.dtype([('datetime', '<u8'), ('open', '<f8'), ('close', '<f8'), ('high', '<f8'), ('low', '<f8'),
                ('volume', '<f8'), ('total_turnover', '<f8'), ('limit_up', '<f8'), ('limit_down', '<f8')])
FDT = np.dtype(SDT.descr + [('settlement', '<f8'), ('prev_settlement', '<f8'), ('open_interest', '<f8')])
DDT = np.dtype([('announcement_date', '<u4'), ('book_closure_date', '<u4'), ('ex_dividend_date', '<u4'),
                ('payable_date', '<u4'), ('dividend_cash_before_tax', '<f8'), ('round_lot', '<u4')])


def calendar(rnd, n, start=None, week_off=False):
    d = start or (datetime.date(2020, 1, 1) + datetime.timedelta(days=rnd.randrange(330)))
    out = []
    hol = set()
    for _ in range(rnd.randrange(0, 3)):
        s = d + datetime.timedelta(days=rnd.randrange(n * 2))
        for k in range(rnd.randrange(1, 7)):
            hol.add(s + datetime.timedelta(days=k))
    if week_off:
        # a market closure that covers a whole calendar week (Spring Festival / National Day style): Saturday to the Sunday of the week after
        s = d + datetime.timedelta(days=rnd.randrange(7, max(8, n)))
        s += datetime.timedelta(days=(5 - s.weekday()) % 7)
        for k in range(9):
            hol.add(s + datetime.timedelta(days=k))
    while len(out) < n:
        if d.weekday() < 5 and d not in hol:
            out.append(d)
        d += datetime.timedelta(days=1)
    return out


def gen_market(rnd, ndays=22, warm=3, n_stocks=None, with_future=None, opts=None):
    """Returns a market scenario dict S.
    S['cal'] list of dates (warm-up days first); S['stocks'] list of dicts(id,type,board,lot,bars{i:tuple},listed,delisted);
    S['futures']; S['div'] {id:[(announce,book,ex,payable,cash_per_lot,lot)]}; S['split'] {id:[(ex14,ratio)]};
    S['fac'] {id:[(start14,factor)]}; S['sus'] {id:[d8]}; S['trf'] {pred:{successor,share_conversion_ratio}}"""
    opts = opts or {}
    cal = calendar(rnd, ndays + warm, opts.get("cal_start"), bool(opts.get("week_off")))
    S = {"cal": cal, "stocks": [], "futures": [], "div": {}, "split": {}, "fac": {}, "sus": {}, "trf": {}, "warm": warm}
    nst = n_stocks if n_stocks is not None else rnd.randrange(1, 4)
    p_delist = opts.get("p_delist", 0.2)
    p_split = opts.get("p_split", 0.3)
    p_div = opts.get("p_div", 0.4)
    p_limit = opts.get("p_limit", 0.16)
    p_sus = opts.get("p_sus", 0.04)
    for k in range(nst):
        kind = opts.get("kinds", ["CS"] * 6 + ["ETF", "KSH"])[rnd.randrange(len(opts.get("kinds", ["CS"] * 6 + ["ETF", "KSH"])))]
        if kind == "KSH":
            oid = "6880%02d.XSHG" % (k + 1)
        elif kind == "ETF":
            oid = "5100%02d.XSHG" % (k + 1)
        else:
            oid = "%06d.XSHE" % (k + 1)
        listed_i = 0 if (rnd.random() < 0.8 or len(cal) < warm + 7) else rnd.randrange(warm, warm + 5)
        delist_i = None if (rnd.random() >= p_delist or len(cal) - 1 <= warm + 6) else rnd.randrange(warm + 6, len(cal) - 1)
        p = round(rnd.uniform(2, 60), 2)
        bars = {}
        prev = p
        split_i = rnd.randrange(warm + 2, len(cal) - 2) if (rnd.random() < p_split and kind != "ETF" and len(cal) - 2 > warm + 2) else None
        ratio = rnd.choice([1.5, 2.0, 1.2, 1.15, 0.5]) if split_i else None
        divs = []
        if rnd.random() < p_div and len(cal) - 4 > warm + 1:
            for _ in range(1 if rnd.random() < 1 - opts.get("p_two_div", 0.2) else 2):
                bi = rnd.randrange(warm + 1, len(cal) - 4)
                divs.append((bi, bi + 1, bi + 1 + rnd.randrange(0, 3), round(rnd.uniform(0.5, 5), 2)))   # book, ex, payable idx, cash per 10
            if len(divs) == 2 and not (divs[0][2] < divs[1][0] or divs[1][2] < divs[0][0]) and not opts.get("overlap_div"):
                divs = divs[:1]     # overlapping record->payable windows are a separate stream (finding F21)
        if delist_i is not None and opts.get("p_div_over_delist") and rnd.random() < opts["p_div_over_delist"] and delist_i - 2 >= max(warm + 1, listed_i) and kind != "ETF":
            # a dividend whose record date is passed while the stock still trades and whose payable date lies after the delisting: the receivable outlives the holding
            divs = [(delist_i - 2, delist_i - 1, min(delist_i + rnd.randrange(1, 3), len(cal) - 1), round(rnd.uniform(0.5, 5), 2))]
        if divs and opts.get("p_special_div") and rnd.random() < opts["p_special_div"]:
            d0 = divs[0]      # a special dividend announced with the regular one: a second row with the same record, ex and payable dates
            divs.insert(1, (d0[0], d0[1], d0[2], round(rnd.uniform(0.5, 3), 2)))
        if split_i is not None and divs and rnd.random() < opts.get("p_same_ex", 0.35) and warm + 2 <= divs[0][1] < len(cal) - 2:
            split_i = divs[0][1]        # bonus shares and cash dividend with one ex-date (the usual combined distribution)
        fac = [(0, 1.0)]
        f = 1.0
        width = 0.2 if kind == "KSH" else 0.1
        kept_divs = []
        for i, dd in enumerate(cal):
            if i < listed_i or (delist_i is not None and i >= delist_i):
                continue
            ref = prev
            # the code applies the dividend first, then the split, on a day with both
            for dv in divs:
                if dv[1] == i:
                    dps = dv[3] / 10
                    newref = ref - dps             # exact: the factor table must be consistent with the dividend (Bundle.WF)
                    if newref > 0.5 and (dv[0] >= listed_i):
                        f *= ref / newref
                        fac.append((d14(dd), f))
                        ref = newref
                        kept_divs.append(dv)
            if split_i == i:
                ref = round(ref / ratio, 2)
                f *= ratio
                fac.append((d14(dd), f))
            lu = round(ref * (1 + width), 2)
            ld = round(ref * (1 - width), 2)
            r = rnd.random()
            if r < p_limit / 2:
                c = lu
            elif r < p_limit:
                c = ld
            elif r < p_limit + opts.get("p_near_limit", 0.1):
                c = rnd.choice([round(ld + 0.01 * rnd.choice([1, 2, 3]), 2), round(lu - 0.01 * rnd.choice([1, 2, 3]), 2)])   # inside the band, a tick or two from a limit
                c = min(lu, max(ld, c))
            else:
                c = min(lu, max(ld, round(ref * (1 + rnd.uniform(-0.07, 0.07)), 2)))
            o = min(lu, max(ld, round(ref * (1 + rnd.uniform(-0.03, 0.03)), 2)))
            v = rnd.choice([0, 0, 100, 300, 1000, 4000, 40000, 1e6, 1e6, 1e6, 1e6]) if rnd.random() < opts.get("p_thin", 0.5) else 1e6
            sus = rnd.random() < p_sus
            if sus:
                v = 0
                c = ref
                o = ref
            hi = max(o, c)
            lo = min(o, c)
            if not sus and rnd.random() < 0.5:
                hi = min(lu, round(hi * 1.01, 2))
                lo = max(ld, round(lo * 0.99, 2))
            tt = float(v) * round((o + c) / 2, 2)
            bars[i] = (d14(dd), o, c, hi, lo, float(v), tt, lu, ld)
            if sus:
                S["sus"].setdefault(oid, []).append(d8(dd))
            prev = c
        lot = 100.0 if kind in ("CS", "ETF") else 1.0
        S["stocks"].append({"id": oid, "type": "ETF" if kind == "ETF" else "CS", "board": "KSH" if kind == "KSH" else "MainBoard",
                            "lot": lot, "bars": bars, "listed": cal[listed_i], "delisted": None if delist_i is None else cal[delist_i],
                            "tplus": 1})
        if split_i is not None and split_i in bars:
            S["split"][oid] = [(d14(cal[split_i]), ratio)]
        dv_rows = []
        for dv in kept_divs:
            if dv[0] in bars and dv[1] in bars:
                dv_rows.append((d8(cal[dv[0] - 1]), d8(cal[dv[0]]), d8(cal[dv[1]]), d8(cal[dv[2]]), dv[3], 10))
        if opts.get("early_announce") and len(dv_rows) >= 2:
            # the table is stored in record-date order; announcement dates need not ascend: the LATER dividend was announced first
            dv_rows.sort(key=lambda r: r[2])
            first_ann = datetime.datetime.strptime(str(dv_rows[0][0]), "%Y%m%d").date()
            dv_rows[-1] = (d8(first_ann - datetime.timedelta(days=9)),) + dv_rows[-1][1:]
        if dv_rows:
            S["div"][oid] = sorted(dv_rows, key=lambda r: r[2])
        S["fac"][oid] = fac
    wf = with_future if with_future is not None else (rnd.random() < 0.6)
    if wf:
        nf = opts.get("n_futures") or (1 if rnd.random() < 0.7 else 2)
        for k in range(nf):
            oid = ["RB2010", "IF2012", "RB2101"][k]
            under = ["RB", "IF", "RB"][k]
            mult = [10.0, 300.0, 10.0][k]
            p = float(rnd.randrange(2000, 5000))
            bars = {}
            exp_i = None if (rnd.random() >= opts.get("p_expire", 0.4) or len(cal) - 1 <= warm + 6) else rnd.randrange(warm + 6, len(cal) - 1)
            prev = p
            prev_st = p
            for i, dd in enumerate(cal):
                if exp_i is not None and i > exp_i:
                    continue
                c = float(round(prev * (1 + rnd.uniform(-0.04, 0.04))))
                o = float(round(prev * (1 + rnd.uniform(-0.02, 0.02))))
                st = float(round((o + c) / 2))
                v = float(rnd.choice([0, 5, 20, 1000, 1000, 1000]))
                # prev_settlement of a day = settlement of the previous day (Bundle.WF)
                bars[i] = (d14(dd), o, c, max(o, c), min(o, c), v, v * c * mult, float(round(prev * 1.1)), float(round(prev * 0.9)), st, prev_st, 500.0)
                prev = c
                prev_st = st
            if opts.get("crash") and k == 0:
                # a collapse in the middle of the run (limit bands ignored by the data, as after a long halt): a leveraged long holder is wiped out at that day's settlement
                ci = warm + 3
                for i in list(bars):
                    if i >= ci:
                        b = bars[i]
                        sc_ = lambda x: float(round(x * 0.45))
                        bars[i] = (b[0], sc_(b[1]), sc_(b[2]), sc_(b[3]), sc_(b[4]), b[5], b[5] * sc_(b[2]) * mult, sc_(b[7]), sc_(b[8]), sc_(b[9]), sc_(b[10]) if i > ci else b[10], b[11])
            exp_date = None if exp_i is None else cal[exp_i]
            if exp_i is not None and exp_i + 1 < len(cal) and (cal[exp_i + 1] - cal[exp_i]).days > 1 and rnd.random() < 0.6:
                exp_date = cal[exp_i] + datetime.timedelta(days=1)      # a maturity date that is not a trading day (the last bar is the trading day before it)
            S["futures"].append({"id": oid, "under": under, "mult": mult, "bars": bars, "expire": exp_date,
                                 "info": {"underlying_symbol": under,
                                          "close_commission_ratio": [0.0001, 2.0, 0.0001][k], "close_commission_today_ratio": [0.0003, 6.0, 0.0003][k],
                                          "commission_type": ["by_money", "by_volume", "by_money"][k], "open_commission_ratio": [0.0001, 2.0, 0.0001][k],
                                          "margin_rate": [0.1, 0.12, 0.1][k], "tick_size": [1.0, 0.2, 1.0][k]}})
    S["start"] = cal[warm]
    S["end"] = cal[-1]
    return S


def write_bundle(S, path):
    shutil.rmtree(path, ignore_errors=True)
    os.makedirs(path)
    cal = S["cal"]
    np.save(os.path.join(path, "trading_dates.npy"), np.array([d8(d) for d in cal], dtype=np.int64))
    ins = []
    stocks = [s for s in S["stocks"] if s["type"] == "CS"]
    funds = [s for s in S["stocks"] if s["type"] != "CS"]
    with h5py.File(os.path.join(path, "stocks.h5"), "w") as h:
        for s in stocks:
            h.create_dataset(s["id"], data=np.array([s["bars"][i] for i in sorted(s["bars"])], dtype=SDT))
    with h5py.File(os.path.join(path, "funds.h5"), "w") as h:
        for s in funds:
            h.create_dataset(s["id"], data=np.array([s["bars"][i] for i in sorted(s["bars"])], dtype=SDT))
    for s in S["stocks"]:
        ins.append({"order_book_id": s["id"], "symbol": s["id"], "type": s["type"], "board_type": s["board"], "round_lot": s["lot"],
                    "listed_date": s["listed"].isoformat(),
                    "de_listed_date": "0000-00-00" if s["delisted"] is None else s["delisted"].isoformat(),
                    "exchange": "XSHE" if s["id"].endswith("XSHE") else "XSHG", "market_tplus": s.get("tplus", 1), "status": "Active",
                    "special_type": "Normal", "sector_code": "x", "sector_code_name": "x", "industry_code": "x",
                    "industry_name": "x", "concept_names": ""})
    with h5py.File(os.path.join(path, "indexes.h5"), "w") as h:
        idx = S.get("index_close") or [1000. + i for i in range(len(cal))]
        h.create_dataset("000001.XSHG", data=np.array(
            [(d14(d), idx[i], idx[i], idx[i], idx[i], 1e6, 1e9, np.nan, np.nan) for i, d in enumerate(cal)], dtype=SDT))
        ins.append({"order_book_id": "000001.XSHG", "symbol": "IDX", "type": "INDX", "round_lot": 1.0, "listed_date": "1990-01-01",
                    "de_listed_date": "0000-00-00", "exchange": "XSHG"})
    with h5py.File(os.path.join(path, "futures.h5"), "w") as h:
        for f in S["futures"]:
            h.create_dataset(f["id"], data=np.array([f["bars"][i] for i in sorted(f["bars"])], dtype=FDT))
            dl = "2999-12-31" if f["expire"] is None else f["expire"].isoformat()
            ins.append({"order_book_id": f["id"], "symbol": f["id"], "type": "Future", "round_lot": 1.0,
                        "contract_multiplier": f["mult"], "underlying_symbol": f["under"], "listed_date": "2000-01-01",
                        "de_listed_date": dl, "maturity_date": dl, "exchange": "SHFE",
                        "trading_hours": f.get("trading_hours", "09:01-10:15,10:31-11:30,13:31-15:00")})
    # underlying-level entries; a contract with its own entry ("under_info" holds what the underlying says) gets a contract-level one as well
    contract_infos = [dict({k_: v_ for k_, v_ in f["info"].items() if k_ != "underlying_symbol"}, order_book_id=f["id"]) for f in S["futures"] if f.get("under_info")]
    infos = list({f["info"]["underlying_symbol"]: f.get("under_info", f["info"]) for f in S["futures"]}.values()) + contract_infos or [{"underlying_symbol": "RB", "close_commission_ratio": 0.0001,
                                                   "close_commission_today_ratio": 0.0003, "commission_type": "by_money",
                                                   "open_commission_ratio": 0.0001, "margin_rate": 0.1, "tick_size": 1.0}]
    json.dump(infos, open(os.path.join(path, "future_info.json"), "w"))
    pickle.dump(ins, open(os.path.join(path, "instruments.pk"), "wb"))
    with h5py.File(os.path.join(path, "dividends.h5"), "w") as h:
        for k, v in S["div"].items():
            if S.get("_old_div_layout"):
                # the older bundle layout without the book_closure_date column (the record date is then the trading day before the ex-date)
                odt = np.dtype([(n_, DDT.fields[n_][0]) for n_ in DDT.names if n_ != "book_closure_date"])
                h.create_dataset(k, data=np.array([tuple(x for n_, x in zip(DDT.names, row) if n_ != "book_closure_date") for row in v], dtype=odt))
            else:
                h.create_dataset(k, data=np.array(v, dtype=DDT))
    with h5py.File(os.path.join(path, "split_factor.h5"), "w") as h:
        for k, v in S["split"].items():
            h.create_dataset(k, data=np.array(v, dtype=np.dtype([('ex_date', '<i8'), ('split_factor', '<f8')])))
    with h5py.File(os.path.join(path, "ex_cum_factor.h5"), "w") as h:
        for k, v in S["fac"].items():
            h.create_dataset(k, data=np.array(v, dtype=np.dtype([('start_date', '<i8'), ('ex_cum_factor', '<f8')])))
    with h5py.File(os.path.join(path, "yield_curve.h5"), "w") as h:
        h.create_dataset("data", data=np.array([(d8(d), 0.02, 0.02, 0.02) for d in cal],
                                                dtype=np.dtype([('date', '<i8'), ('0S', '<f8'), ('1M', '<f8'), ('1Y', '<f8')])))
    json.dump(S["trf"], open(os.path.join(path, "share_transformation.json"), "w"))
    with h5py.File(os.path.join(path, "suspended_days.h5"), "w") as h:
        for k, v in S["sus"].items():
            h.create_dataset(k, data=np.array(v, dtype=np.int64))
    with h5py.File(os.path.join(path, "st_stock_days.h5"), "w") as h:
        pass

"""what source-code strategies of harness/code_worker.py write their observations to"""
LOG = []
IDS = []


def log(*a):
    LOG.append(list(a))

"""Harness-side instrumentation of a real run (no change to /repo): wraps methods of rqalpha's Account / matcher / broker classes
while a run executes and records, for every call, the observable state before and after plus the call's inputs.  Each
recorded call is one operation of the Lean model (step-sync correspondence)."""
import contextlib, datetime, math
import numpy as np


def d8(d):
    if d is None:
        return None
    if isinstance(d, datetime.datetime):
        d = d.date()
    return d.year * 10000 + d.month * 100 + d.day


def snap_pos(p):
    dr = getattr(p, "_dividend_receivable", None)
    return {"qty": p._quantity, "old": p._old_quantity, "logical_old": p._logical_old_quantity, "avg": float(p._avg_price),
            "trade_cost": float(p._trade_cost), "txn_cost": float(p._transaction_cost), "last": float(p.last_price) if p.last_price is not None else float("nan"),
            "non_closable": getattr(p, "_non_closable", 0), "div": None if not dr else (d8(dr[0]), float(dr[1]))}


def snap_account(a, with_obs=True):
    from rqalpha.const import POSITION_DIRECTION
    hs = []
    for oid, pair in a._positions.items():
        hs.append({"id": oid, "long": snap_pos(pair[POSITION_DIRECTION.LONG]), "short": snap_pos(pair[POSITION_DIRECTION.SHORT])})
    s = {"type": a.type, "total_cash": float(a._total_cash), "frozen": float(a._frozen_cash), "liab": float(a._cash_liabilities),
         "pending": [(d8(d), float(x)) for d, x in a._pending_deposit_withdraw], "mgmt_fees": float(a._management_fees),
         "mgmt_rate": float(a._management_fee_rate), "fin_rate": float(a._financing_rate), "holdings": hs}
    if with_obs:
        s["obs"] = {"cash": float(a.cash), "margin": float(a.margin), "market_value": float(a.market_value), "total_value": float(a.total_value),
                    "position_equity": float(a.position_equity), "transaction_cost": float(a.transaction_cost), "trading_pnl": float(a.trading_pnl)}
    return s


class Recorder(object):
    def __init__(self):
        self.ops = []          # account operations: dict(op, acct, pre, post, args, when)
        self.depth = 0
        self.events = []       # published events of interest (order / trade), in order
        self.match_calls = []

    def now(self):
        from rqalpha.environment import Environment
        env = Environment.get_instance()
        return (env.calendar_dt, env.trading_dt)


@contextlib.contextmanager
def instrument(rec):
    """patch the classes for the duration of one run"""
    from rqalpha.portfolio.account import Account
    from rqalpha.environment import Environment
    saved = {}

    def wrap(cls, name, make_args, want=lambda self, *a, **k: True):
        orig = getattr(cls, name)
        saved[(cls, name)] = orig

        def w(self, *a, **k):
            if not want(self, *a, **k):
                return orig(self, *a, **k)
            nested = rec.depth > 0
            pre = None if nested else snap_account(self)
            args = make_args(self, *a, **k)
            rec.depth += 1
            raised = None
            try:
                return orig(self, *a, **k)
            except Exception as ex:
                raised = ex
                raise
            finally:
                rec.depth -= 1
                post = None if nested else snap_account(self)
                rec.ops.append({"op": name, "acct": self.type, "pre": pre, "post": post, "args": args, "nested": nested,
                                "when": rec.now(), "raised": type(raised).__name__ if raised else None})
        setattr(cls, name, w)

    def trade_args(self, trade, order=None):
        env = Environment.get_instance()
        exists = trade.order_book_id in self._positions
        return {"id": trade.order_book_id, "price": float(trade.last_price), "qty": trade.last_quantity, "effect": trade.position_effect.name,
                "side": trade.side.name, "direction": trade.position_direction.name, "commission": float(trade.commission), "tax": float(trade.tax),
                "fee": float(trade.transaction_cost), "close_today_amount": trade.close_today_amount,
                "order": None if order is None else {"qty": order.quantity, "init_frozen": float(order.init_frozen_cash), "id": order.order_id,
                                                     "filled_before": order.filled_quantity - trade.last_quantity},
                "create_last": None if exists else float(env.get_last_price(trade.order_book_id)),
                "skipped": trade.exec_id in self._backward_trade_set, "exec_id": trade.exec_id}

    def order_args(self, event):
        o = event.order
        return {"id": o.order_book_id, "order_id": o.order_id, "qty": o.quantity, "filled": o.filled_quantity, "frozen_price": float(o._frozen_price) if o._frozen_price is not None else None,
                "init_frozen": None if o._init_frozen_cash is None else float(o._init_frozen_cash), "effect": o.position_effect.name, "side": o.side.name,
                "direction": o.position_direction.name, "status": o.status.name, "type": o.type.name,
                "order_cost": float(Environment.get_instance().get_order_transaction_cost(o))}

    mine = lambda self, event: event.account is self
    wrap(Account, "apply_trade", trade_args)
    wrap(Account, "_on_order_pending_new", order_args, mine)
    wrap(Account, "_on_order_unsolicited_update", order_args, mine)
    wrap(Account, "_on_before_trading", lambda self, ev: {"today": d8(Environment.get_instance().trading_dt)})
    wrap(Account, "_on_settlement", lambda self, ev: {"today": d8(Environment.get_instance().trading_dt)})
    wrap(Account, "_on_bar", lambda self, ev: {"today": d8(Environment.get_instance().trading_dt), "dt": Environment.get_instance().calendar_dt})
    wrap(Account, "deposit_withdraw", lambda self, amount, receiving_days=0: {"amount": float(amount), "days": receiving_days,
                                                                             "today": d8(Environment.get_instance().trading_dt)})
    wrap(Account, "finance_repay", lambda self, amount: {"amount": float(amount)})
    try:
        yield rec
    finally:
        for (cls, name), orig in saved.items():
            setattr(cls, name, orig)

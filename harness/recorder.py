"""Harness-side instrumentation of a real run (no change to /repo): wraps methods of rqalpha's Account / matcher / broker classes
while a run executes and records, for every call, the observable state before and after plus the call's inputs.  Each
recorded call is one operation of the Lean model (step-sync correspondence)."""
import contextlib, datetime, math
import numpy as np


def d8(d):
    if d is None:
        return None
    if isinstance(d, datetime.datetime):
        d = d.date()
    return d.year * 10000 + d.month * 100 + d.day


def snap_pos(p):
    dr = getattr(p, "_dividend_receivable", None)
    return {"qty": p._quantity, "old": p._old_quantity, "logical_old": p._logical_old_quantity, "avg": float(p._avg_price),
            "trade_cost": float(p._trade_cost), "txn_cost": float(p._transaction_cost), "last": float(p.last_price) if p.last_price is not None else float("nan"),
            "non_closable": getattr(p, "_non_closable", 0), "div": None if not dr else (d8(dr[0]), float(dr[1]))}


def snap_account(a, with_obs=True):
    from rqalpha.const import POSITION_DIRECTION
    hs = []
    for oid, pair in a._positions.items():
        hs.append({"id": oid, "long": snap_pos(pair[POSITION_DIRECTION.LONG]), "short": snap_pos(pair[POSITION_DIRECTION.SHORT])})
    s = {"type": a.type, "total_cash": float(a._total_cash), "frozen": float(a._frozen_cash), "liab": float(a._cash_liabilities),
         "pending": [(d8(d), float(x)) for d, x in a._pending_deposit_withdraw], "mgmt_fees": float(a._management_fees),
         "mgmt_rate": float(a._management_fee_rate), "fin_rate": float(a._financing_rate), "holdings": hs}
    try:
        s["view"] = list(a.positions.keys())          # what `account.positions` / `context.portfolio.positions` (a cached proxy around the position table) lists
    except Exception as ex:
        s["view"] = "error: %r" % (ex,)
    if with_obs:
        s["obs"] = {"cash": float(a.cash), "margin": float(a.margin), "market_value": float(a.market_value), "total_value": float(a.total_value),
                    "position_equity": float(a.position_equity), "transaction_cost": float(a.transaction_cost), "trading_pnl": float(a.trading_pnl)}
    return s


class Recorder(object):
    def __init__(self):
        self.ops = []          # account operations: dict(op, acct, pre, post, args, when)
        self.depth = 0
        self.events = []       # published events of interest (order / trade), in order
        self.match_calls = []
        self.validations = []  # validator decisions: dict(validator, order, inputs, veto)
        self.pf_ops = []       # portfolio-level operations
        self.inputs = []       # everything that drives the run, in order: day events (system side) and the strategy's calls (free-running world)

    def attach(self, accounts, pf, open_ids):
        """the observable state after everything up to now: attached to the latest input"""
        if self.inputs:
            self.inputs[-1]["snap"] = {"accounts": accounts, "pf": pf, "open": open_ids}

    def now(self):
        from rqalpha.environment import Environment
        env = Environment.get_instance()
        return (env.calendar_dt, env.trading_dt)


@contextlib.contextmanager
def instrument(rec):
    """patch the classes for the duration of one run"""
    from rqalpha.portfolio.account import Account
    from rqalpha.environment import Environment
    saved = {}

    def wrap(cls, name, make_args, want=lambda self, *a, **k: True):
        orig = getattr(cls, name)
        saved[(cls, name)] = orig

        def w(self, *a, **k):
            if not want(self, *a, **k):
                return orig(self, *a, **k)
            nested = rec.depth > 0
            pre = None if nested else snap_account(self)
            args = make_args(self, *a, **k)
            if name == "_on_bar" and not nested and type(Environment.get_instance().broker).__name__ == "SignalBroker" \
                    and not (rec.inputs and rec.inputs[-1]["k"] == "R" and rec.inputs[-1].get("dt") == args["dt"]):
                rec.inputs.append({"k": "R", "today": args["today"], "dt": args["dt"]})      # signal mode has no SimulationBroker.on_bar to mark the bar
            if name == "_on_settlement" and not (rec.inputs and rec.inputs[-1]["k"] == "S" and rec.inputs[-1]["today"] == args["today"]):
                rec.inputs.append({"k": "S", "today": args["today"]})
            elif name == "finance_repay" and not nested:
                rec.inputs.append({"k": "F", "acct": self.type, "amount": args["amount"]})
            rec.depth += 1
            raised = None
            try:
                return orig(self, *a, **k)
            except Exception as ex:
                raised = ex
                raise
            finally:
                rec.depth -= 1
                post = None if nested else snap_account(self)
                rec.ops.append({"op": name, "acct": self.type, "pre": pre, "post": post, "args": args, "nested": nested,
                                "when": rec.now(), "raised": type(raised).__name__ if raised else None})
        setattr(cls, name, w)

    def trade_args(self, trade, order=None):
        env = Environment.get_instance()
        exists = trade.order_book_id in self._positions
        return {"id": trade.order_book_id, "price": float(trade.last_price), "qty": trade.last_quantity, "effect": trade.position_effect.name,
                "side": trade.side.name, "direction": trade.position_direction.name, "commission": float(trade.commission), "tax": float(trade.tax),
                "fee": float(trade.transaction_cost), "close_today_amount": trade.close_today_amount,
                "order": None if order is None else {"qty": order.quantity, "init_frozen": float(order.init_frozen_cash), "id": order.order_id,
                                                     "filled_before": order.filled_quantity - trade.last_quantity},
                "create_last": None if exists else float(env.get_last_price(trade.order_book_id)),
                "skipped": trade.exec_id in self._backward_trade_set, "exec_id": trade.exec_id}

    def order_args(self, event):
        o = event.order
        return {"id": o.order_book_id, "order_id": o.order_id, "qty": o.quantity, "filled": o.filled_quantity, "frozen_price": float(o._frozen_price) if o._frozen_price is not None else None,
                "init_frozen": None if o._init_frozen_cash is None else float(o._init_frozen_cash), "effect": o.position_effect.name, "side": o.side.name,
                "direction": o.position_direction.name, "status": o.status.name, "type": o.type.name,
                "order_cost": float(Environment.get_instance().get_order_transaction_cost(o))}

    mine = lambda self, event: event.account is self
    wrap(Account, "apply_trade", trade_args)
    wrap(Account, "_on_order_pending_new", order_args, mine)
    wrap(Account, "_on_order_unsolicited_update", order_args, mine)
    wrap(Account, "_on_before_trading", lambda self, ev: {"today": d8(Environment.get_instance().trading_dt)})
    wrap(Account, "_on_settlement", lambda self, ev: {"today": d8(Environment.get_instance().trading_dt)})
    wrap(Account, "_on_bar", lambda self, ev: {"today": d8(Environment.get_instance().trading_dt), "dt": Environment.get_instance().calendar_dt})
    wrap(Account, "deposit_withdraw", lambda self, amount, receiving_days=0: {"amount": float(amount), "days": receiving_days,
                                                                             "today": d8(Environment.get_instance().trading_dt)})
    wrap(Account, "finance_repay", lambda self, amount: {"amount": float(amount)})
    # ---- front-end validators: record every decision with the inputs the validator read
    from rqalpha.mod.rqalpha_mod_sys_accounts.position_validator import PositionValidator
    from rqalpha.mod.rqalpha_mod_sys_risk.validators.cash_validator import CashValidator
    from rqalpha.mod.rqalpha_mod_sys_risk.validators.price_validator import PriceValidator
    from rqalpha.mod.rqalpha_mod_sys_risk.validators.is_trading_validator import IsTradingValidator
    from rqalpha.mod.rqalpha_mod_sys_risk.validators.self_trade_validator import SelfTradeValidator

    def order_in(o):
        return {"id": o.order_id, "book": o.order_book_id, "is_limit": o.type.name == "LIMIT", "price": float(o.price), "frozen_price": float(o._frozen_price) if o._frozen_price is not None else float("nan"),
                "qty": o.quantity, "effect": o.position_effect.name, "is_buy": o.side.name == "BUY", "direction": o.position_direction.name}

    def wrap_validator(cls, label, inputs):
        orig = cls.validate_submission
        saved[(cls, "validate_submission")] = orig

        def w(self, order, account=None):
            env = Environment.get_instance()
            try:
                inp = inputs(env, order, account)
            except Exception as ex:
                inp = {"error": repr(ex)}
            res = orig(self, order, account)
            rec.validations.append({"validator": label, "order": order_in(order), "inputs": inp, "veto": res is not None, "when": rec.now(),
                                    "account": None if account is None else account.type})
            return res
        cls.validate_submission = w

    def pos_inputs(env, order, account):
        if account is None:
            return {}
        p = account.get_position(order.order_book_id, order.position_direction)
        oo = [(o.position_effect.name, o.unfilled_quantity) for o in env.broker.get_open_orders(order.order_book_id) if o.position_direction == order.position_direction]
        return {"closable": p.closable, "today_closable": p.today_closable, "qty": p.quantity, "old": p._old_quantity, "pos": snap_pos(p), "open_orders": oo,
                "is_long": order.position_direction.name == "LONG"}

    def cash_inputs(env, order, account):
        return {"cash": None if account is None else float(account.cash), "order_cost": float(env.get_order_transaction_cost(order)),
                "ledger": None if account is None else snap_account(account, with_obs=False)}      # the raw ledger: the monitors recompute what is available

    def price_inputs(env, order, account):
        return {"limit_up": float(env.price_board.get_limit_up(order.order_book_id)), "limit_down": float(env.price_board.get_limit_down(order.order_book_id))}

    def trading_inputs(env, order, account):
        ins = env.data_proxy.instrument(order.order_book_id)
        return {"type": str(ins.type), "trading_dt": env.trading_dt}

    def self_inputs(env, order, account):
        return {"opposite": [(o.type.name, float(o.price)) for o in env.get_open_orders(order.order_book_id) if o.side != order.side]}

    wrap_validator(PositionValidator, "position", pos_inputs)
    wrap_validator(CashValidator, "cash", cash_inputs)
    wrap_validator(PriceValidator, "price", price_inputs)
    wrap_validator(IsTradingValidator, "is_trading", trading_inputs)
    wrap_validator(SelfTradeValidator, "self_trade", self_inputs)

    # ---- the bar matcher: one record per match() call
    from rqalpha.mod.rqalpha_mod_sys_simulation.matcher import DefaultBarMatcher
    from rqalpha.core.events import EVENT as _EV
    orig_match = DefaultBarMatcher.match
    saved[(DefaultBarMatcher, "match")] = orig_match

    def osnap(o):
        return {"id": o.order_id, "book": o.order_book_id, "is_buy": o.side.name == "BUY", "is_limit": o.type.name == "LIMIT", "price": float(o.price), "effect": o.position_effect.name,
                "qty": o.quantity, "filled": o.filled_quantity, "status": o.status.name, "avg": float(o.avg_price), "cost": float(o.transaction_cost),
                "frozen_price": float(o._frozen_price) if o._frozen_price is not None else float("nan"), "init_frozen": float(o._init_frozen_cash) if o._init_frozen_cash is not None else 0.0,
                "direction": o.position_direction.name}

    def match_w(self, account, order, open_auction):
        env = self._env
        pre = osnap(order)
        tv = self._turnover[order.order_book_id] if order.order_book_id in self._turnover else 0
        cash = float(account.cash)
        n_calls0 = len(rec.match_calls)      # a TRADE handler that sends an order re-enters the matcher before this call returns
        captured = []
        bus = env.event_bus
        orig_pub = bus.publish_event

        def pub(ev):
            if ev.event_type == _EV.TRADE:
                t = ev.trade
                captured.append({"price": float(t.last_price), "qty": t.last_quantity, "commission": float(t.commission), "tax": float(t.tax), "close_today": t.close_today_amount})
            return orig_pub(ev)
        bus.publish_event = pub
        stamped = {}
        oc, ot = env.get_trade_commission, env.get_trade_tax

        def gc(trade):
            v = oc(trade)
            stamped["commission"] = float(v)
            stamped["price"] = float(trade.last_price)
            stamped["qty"] = trade.last_quantity
            stamped["close_today"] = trade.close_today_amount
            return v

        def gt(trade):
            v = ot(trade)
            stamped["tax"] = float(v)
            return v
        env.get_trade_commission, env.get_trade_tax = gc, gt
        raised = None
        try:
            return orig_match(self, account, order, open_auction)
        except Exception as ex:
            raised = ex
            raise
        finally:
            try:
                del bus.publish_event
            except AttributeError:
                pass
            for nm in ("get_trade_commission", "get_trade_tax"):
                try:
                    delattr(env, nm)
                except AttributeError:
                    pass
            rec.match_calls.append({"stamped": stamped, "pre": pre, "post": osnap(order), "turnover": tv, "turnover_after": self._turnover.get(order.order_book_id, 0), "cash": cash,
                                    "auction": bool(open_auction), "trades": captured, "raised": type(raised).__name__ if raised else None, "when": rec.now(),
                                    "account": account.type, "had_inner": len(rec.match_calls) > n_calls0})
    DefaultBarMatcher.match = match_w

    # ---- signal mode: one record per SignalBroker._match() call
    from rqalpha.mod.rqalpha_mod_sys_simulation.signal_broker import SignalBroker
    from rqalpha.core.execution_context import ExecutionContext as _EC
    from rqalpha.const import EXECUTION_PHASE as _PH
    orig_sig = SignalBroker._match
    saved[(SignalBroker, "_match")] = orig_sig

    def sig_w(self, account, order):
        env = self._env
        pre = osnap(order)
        captured = []
        bus = env.event_bus
        orig_pub = bus.publish_event

        def pub(ev):
            if ev.event_type == _EV.TRADE:
                t = ev.trade
                captured.append({"price": float(t.last_price), "qty": t.last_quantity, "commission": float(t.commission), "tax": float(t.tax), "close_today": t.close_today_amount})
            return orig_pub(ev)
        bus.publish_event = pub
        raised = None
        try:
            auction = _EC.phase() == _PH.OPEN_AUCTION
        except Exception:
            auction = False
        try:
            return orig_sig(self, account, order)
        except Exception as ex:
            raised = ex
            raise
        finally:
            try:
                del bus.publish_event
            except AttributeError:
                pass
            rec.match_calls.append({"signal": True, "stamped": {}, "pre": pre, "post": osnap(order), "turnover": 0, "turnover_after": 0, "cash": float(account.cash),
                                    "auction": bool(auction), "trades": captured, "raised": type(raised).__name__ if raised else None, "when": rec.now(), "account": account.type})
    SignalBroker._match = sig_w

    # ---- portfolio-level operations
    from rqalpha.portfolio import Portfolio

    def pf_snap(p):
        return {"units": float(p._units), "static": float(p._static_unit_net_value), "accounts": [(t, snap_account(a)) for t, a in p._accounts.items()],
                "total_value": float(p.total_value), "nav": float(p.unit_net_value), "daily_returns": float(p.daily_returns), "total_returns": float(p.total_returns)}

    def wrap_pf(name, make_args):
        orig = getattr(Portfolio, name)
        saved[(Portfolio, name)] = orig

        def w(self, *a, **k):
            pre = pf_snap(self)
            args = make_args(self, *a, **k)
            if name == "_pre_before_trading":
                rec.inputs.append({"k": "P", "today": d8(Environment.get_instance().trading_dt), "pf_pre": pre})
            else:
                d_item = dict(args, k="D", units_pre=pre["units"])
                rec.inputs.append(d_item)
            n_ops0 = len(rec.ops)
            raised = None
            try:
                return orig(self, *a, **k)
            except Exception as ex:
                raised = ex
                raise
            finally:
                if name == "deposit_withdraw" and raised is not None and len(rec.ops) == n_ops0:
                    d_item["refused_by_portfolio"] = type(raised).__name__       # the portfolio refused before any account was touched (net value 0 / no units left)
                rec.pf_ops.append({"op": name, "pre": pre, "post": pf_snap(self), "args": args, "raised": type(raised).__name__ if raised else None, "when": rec.now()})
        setattr(Portfolio, name, w)
    wrap_pf("deposit_withdraw", lambda self, account_type, amount, receiving_days=0: {"account": account_type, "amount": float(amount), "days": receiving_days,
                                                                                    "today": d8(Environment.get_instance().trading_dt)})
    wrap_pf("_pre_before_trading", lambda self, ev: {})
    # ---- the inputs of the free-running world: broker-side day events, order submissions, cancels
    from rqalpha.mod.rqalpha_mod_sys_simulation.simulation_broker import SimulationBroker
    from rqalpha.core.strategy import Strategy

    def wrap_marker(cls, name, make):
        orig = getattr(cls, name)
        saved[(cls, name)] = orig

        def w(self, *a, **k):
            rec.inputs.append(make(self, *a, **k))
            return orig(self, *a, **k)
        setattr(cls, name, w)
    today_ = lambda: d8(Environment.get_instance().trading_dt)
    wrap_marker(SimulationBroker, "before_trading", lambda self, ev: {"k": "B", "today": today_()})
    wrap_marker(SimulationBroker, "on_bar", lambda self, ev: {"k": "R", "today": today_(), "dt": Environment.get_instance().calendar_dt})
    wrap_marker(SimulationBroker, "after_trading", lambda self, ev: {"k": "T", "today": today_()})
    wrap_marker(SimulationBroker, "cancel_order", lambda self, order: {"k": "C", "id": order.order_id})
    wrap_marker(Strategy, "open_auction", lambda self, ev: {"k": "A", "today": today_()})
    orig_can = Environment.can_submit_order
    saved[(Environment, "can_submit_order")] = orig_can

    def can_w(self, order):
        item = {"k": "O", "order": order_in(order), "depth": rec.depth, "passed": None, "submitted": False, "dt": Environment.get_instance().calendar_dt}
        rec.inputs.append(item)
        item["passed"] = bool(orig_can(self, order))
        return item["passed"]
    Environment.can_submit_order = can_w
    orig_bsub = SimulationBroker.submit_order
    saved[(SimulationBroker, "submit_order")] = orig_bsub

    def bsub_w(self, order):
        for item in reversed(rec.inputs):
            if item["k"] == "O" and item["order"]["id"] == order.order_id:
                item["submitted"] = True
                break
        return orig_bsub(self, order)
    SimulationBroker.submit_order = bsub_w
    from rqalpha.mod.rqalpha_mod_sys_simulation.signal_broker import SignalBroker as _SB
    orig_ssub = _SB.submit_order
    saved[(_SB, "submit_order")] = orig_ssub

    def ssub_w(self, order):
        for item in reversed(rec.inputs):
            if item["k"] == "O" and item["order"]["id"] == order.order_id:
                item["submitted"] = True
                break
        return orig_ssub(self, order)
    _SB.submit_order = ssub_w
    try:
        yield rec
    finally:
        for (cls, name), orig in saved.items():
            setattr(cls, name, orig)

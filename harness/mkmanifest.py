#!/usr/bin/env python3
"""Writes /verif/MANIFEST.json from harness/manifest_data.py (claimed checks) and properties.jsonl."""
import json, os, sys
HERE = os.path.dirname(os.path.abspath(__file__))
VERIF = os.path.abspath(os.path.join(HERE, ".."))
sys.path.insert(0, HERE)
import manifest_data as M

props = [json.loads(l) for l in open(os.path.join(VERIF, "properties.jsonl"))]
checks, na = [], []
for p in props:
    pid = p["id"]
    if pid in M.CLAIMED:
        c = dict(M.CLAIMED[pid])
        if pid in getattr(M, "WORLD", {}):
            c["technique"] = c["technique"] + M.WORLD_TECH
            c["text"] = c["text"] + M.WORLD_TEXT_COMMON + M.WORLD[pid]
        checks.append({
            "property_id": pid,
            "quick_cmd": "./check %s quick" % pid,
            "thorough_cmd": "./check %s thorough" % pid,
            "evidence_file": "/verif/evidence/%s.json" % pid,
            "replay_cmd_template": "./check %s --replay {path}" % pid,
            "engine": "lean4-proof+correspondence",
            "level_claimed": {"category": c.get("category", "proof"), "text": c["text"], "design_ref": c.get("design_ref", "DESIGN.md §8 " + pid)},
            "level_note": c["note"],
            "technique": c["technique"],
        })
    else:
        na.append({"property_id": pid, "reason": M.NOT_APPLICABLE.get(pid, "check not built yet in this session (work in progress; see DESIGN.md §13 build order) — not claimed until its theorems, correspondence and monitor exist")})
man = {
    "version": 1,
    "setup_cmd": "./setup.sh",
    "hooks": {"guard": "RQALPHA_VERIF", "enable": "no hooks in /repo: observation uses rqalpha's own extension points (mods, event bus, persist provider, data source); the guard name is reserved and unused",
              "baseline_off_cmd": "cd /repo && /venv/bin/python -m pytest -ra -q -p no:cacheprovider --timeout=900 --continue-on-collection-errors tests/api_tests",
              "source_commits": M.HOOK_COMMITS, "add_only": True},
    "engines": [{"name": "lean4-proof+correspondence", "path": "/verif/lean + /verif/harness",
                 "serves_properties": sorted(M.CLAIMED), "kind_free_text": "Lean 4 theorems over a hand-written executable model (Rat instance); the same model text instantiated at Float and compiled to a driver is compared bit-for-bit with the real rqalpha on generated inputs; tables/constants regenerated from the source on every run; property monitors evaluated on implementation traces"}],
    "checks": checks,
    "not_applicable": na,
    "notes": M.NOTES,
}
json.dump(man, open(os.path.join(VERIF, "MANIFEST.json"), "w"), indent=1, ensure_ascii=False)
print("MANIFEST: %d checks, %d not claimed" % (len(checks), len(na)))

"""Per-property manifest text (what is claimed, at which level, with what trusted base)."""
HOOK_COMMITS = []
NOTES = ("Lean 4 proof + checked correspondence. Every check: regenerate tables from /repo, instantiate Float copy of the model, "
         "lake build of the property's theorem file + axiom audit, correspondence model-vs-implementation on generated inputs, "
         "property monitors on the implementation; known_findings.json lists recorded genuine defects. Exit 2 = infrastructure error.")
NOT_APPLICABLE = {}
CLAIMED = {
 "C11": {
  "technique": "Lean 4 theorems (induction over fill lists, invariant of the decider state) + bit-exact differential correspondence with the real deciders + schedule monitor",
  "text": "Proved in Lean for every fill sequence of an order (any length, any prices/quantities with positive raw commission) that the stock decider's charged total is max(min, rate*mult*turnover) and therefore independent of the split; tax rule, point-in-time rate, futures by-money/by-volume schedule with the close-today part, non-negativity. The model is tied to the code by (a) constants regenerated from deciders.py on every run (rates, tax change date, taxed type) with theorems over them and (b) bit-exact comparison of the compiled Float instance with the real deciders (wired by the real mod in a real run) on thousands of generated fill sequences per run. The schedule is also evaluated directly on the implementation's answers (monitor).",
  "note": "Trusted: Lean kernel + axioms propext/Classical.choice/Quot.sound; extractor (AST of deciders.py); textual Rat->Float instantiation; the comparison harness. Theorems are over exact rationals, the code computes in binary64 (checked bit-for-bit against the Float instance, identities to 1e-9). C11.1 needs positive raw commissions: commission_multiplier=0 is the excluded region and a recorded finding (F6a). 'Each fee deducted from cash exactly once' is carried by the C01 cash ledger.",
 },
}

"""Harness-side probe mod for C19 that is also persistable (rqalpha registers every mod with get_state/set_state in the persist
helper): its get_state can be scripted to raise — when the run persists on a crash, a failing get_state must not keep the mods from
being torn down."""
import probe_mods


class PMod(probe_mods.Mod):
    def get_state(self):
        probe_mods.LOG.append(("get_state", self.tag))
        if self.cfg is not None and getattr(self.cfg, "get_state", "ok") == "raise":
            raise TypeError("probe mod %s: get_state fails" % self.tag)
        return b"{}"

    def set_state(self, state):
        pass


def load_mod():
    return PMod()

"""Step-sync correspondences for the front-end validators (C09 C10 C16) and the portfolio-level operations (C03)."""
import vlib, acct_sync, bundle as B
from vlib import f2b, b2f, of2b


def order_toks(o):
    return [str(int(o["is_limit"])), f2b(o["price"]), f2b(o["frozen_price"]), str(int(o["qty"])), o["effect"], str(int(o["is_buy"]))]


def validators_sync(ctx, corrs, tr, ix):
    """corrs: dict validator label -> Corr"""
    lines, meta = [], []
    for v in tr.rec.validations:
        o, inp = v["order"], v["inputs"]
        ctx.evaluations += 1
        if "error" in inp or o["book"] not in ix.ids or o["effect"] not in ("OPEN", "CLOSE", "CLOSE_TODAY") or o["frozen_price"] != o["frozen_price"]:
            ctx.stats["validation_skipped"] += 1
            continue
        lab = v["validator"]
        if lab == "position" and corrs.get("position") is not None:
            if not inp:
                continue
            lines.append("VPOS " + " ".join(order_toks(o) + [str(int(inp["closable"])), str(int(inp["today_closable"]))]))
            meta.append((corrs["position"], v, "1" if v["veto"] else "0"))
            if corrs.get("closable") is not None and "pos" in inp and not acct_sync.nan_in(inp["pos"]):
                t1 = (ix.cfgk.get("accounts_mod") or {}).get("stock_t1", True)
                oc = sum(q for eff, q in inp["open_orders"] if eff in ("CLOSE", "CLOSE_TODAY", "EXERCISE"))
                oct_ = sum(q for eff, q in inp["open_orders"] if eff == "CLOSE_TODAY")
                lines.append("VCLOSABLE " + " ".join(ix.cfg_toks(o["book"]) + [str(int(t1)), str(int(inp["is_long"]))] + acct_sync.ser_pos(inp["pos"]) + [str(int(oc)), str(int(oct_))]))
                meta.append((corrs["closable"], v, ("closable", inp["closable"], inp["today_closable"])))
        elif lab == "cash" and corrs.get("cash") is not None:
            if inp.get("cash") is None:
                continue
            lines.append("VCASH " + " ".join(ix.cfg_toks(o["book"]) + order_toks(o) + [f2b(inp["order_cost"]), f2b(inp["cash"])]))
            meta.append((corrs["cash"], v, "1" if v["veto"] else "0"))
        elif lab == "price" and corrs.get("price") is not None:
            lu, ld = inp["limit_up"], inp["limit_down"]
            lines.append("VPRICE " + " ".join(order_toks(o) + [of2b(round(lu, 4) if lu == lu else None), of2b(round(ld, 4) if ld == ld else None)]))
            meta.append((corrs["price"], v, None))
        elif lab == "is_trading" and corrs.get("is_trading") is not None:
            # inputs from the bundle: listing window and suspension
            s = ix.stock.get(o["book"])
            f = ix.fut.get(o["book"])
            day = inp["trading_dt"]
            d8v = B.d8(day.date())
            if s is not None:
                listed = (s["listed"] <= day.date()) and not (s["delisted"] is not None and day.date() >= s["delisted"])
                susp = d8v in ix.S["sus"].get(o["book"], [])
                is_cs = s["type"] == "CS"
            else:
                listed = not (f["expire"] is not None and day.date() > f["expire"])
                susp, is_cs = False, False
            lines.append("VTRADING 0 %d %d %d" % (is_cs, listed, susp))
            meta.append((corrs["is_trading"], v, None))
    if not lines or not ctx.driver_ok:
        return
    reps = vlib.ask_driver(lines)
    for (corr, v, want), rep in zip(meta, reps):
        if isinstance(want, tuple) and want[0] == "closable":
            m = rep.split()
            is_fut = v["order"]["book"] in ix.fut
            ok = int(m[0]) == int(want[1]) and (not is_fut or int(m[1]) == int(want[2]))
            corr.add(ok, {"order": v["order"], "position": v["inputs"]["pos"], "open_orders": v["inputs"]["open_orders"], "impl": [want[1], want[2]], "model": m, "when": str(v["when"][0])})
            continue
        impl_veto = v["veto"]
        model_veto = (rep.strip() == "1") if want is not None else (rep.strip() != "PASS")
        corr.add(model_veto == impl_veto, {"validator": v["validator"], "order": v["order"], "inputs": {k: (str(x) if k == "trading_dt" else x) for k, x in v["inputs"].items()},
                                          "impl_veto": impl_veto, "model": rep.strip(), "when": str(v["when"][0])})


def portfolio_sync(ctx, corr, tr, ix):
    lines, meta = [], []
    for op in tr.rec.pf_ops:
        pre, post = op["pre"], op["post"]
        if any(acct_sync.nan_in(a) for _, a in pre["accounts"]) or any(acct_sync.nan_in(a) for _, a in post["accounts"]):
            continue
        if any(h["id"] not in ix.ids for _, a in pre["accounts"] for h in a["holdings"]):
            continue
        if pre["units"] != pre["units"] or pre["units"] == 0 or pre["static"] != pre["static"]:
            # no units left (everything was withdrawn) or NaN unit bookkeeping: outside the model, where a unit net value exists (finding F36)
            ctx.stats["portfolio_ops_without_units_skipped"] += 1
            continue
        ctx.evaluations += 1
        accts = [str(len(pre["accounts"]))] + [x for _, a in pre["accounts"] for x in acct_sync.ser_acct(ix, a)]
        if op["op"] == "_pre_before_trading":
            lines.append(" ".join(["PFLATCH", f2b(pre["units"]), f2b(pre["static"])] + accts))
        else:
            a = op["args"]
            k = [t for t, _ in pre["accounts"]].index(a["account"]) if a["account"] in [t for t, _ in pre["accounts"]] else 99
            days = a["days"]
            lines.append(" ".join(["PFDEP", f2b(pre["units"]), f2b(pre["static"]), str(k), f2b(a["amount"]), str(int(days >= 1)),
                                   str(ix.next_day8(a["today"], days) if days >= 1 else 0)] + accts))
        meta.append(op)
    if not lines or not ctx.driver_ok:
        return
    reps = vlib.ask_driver(lines)
    for op, rep in zip(meta, reps):
        post = op["post"]
        if rep.strip() == "RAISE":
            corr.add(op["raised"] is not None, {"op": op["op"], "args": op["args"], "model": "raises", "impl": op["raised"]})
            continue
        if op["raised"]:
            corr.add(False, {"op": op["op"], "args": op["args"], "model": "accepts", "impl": op["raised"]})
            continue
        t = rep.split()
        units, static, tv = b2f(t[0]), b2f(t[1]), b2f(t[2])
        nav = vlib.ob2f(t[3])
        ok = acct_sync.feq(units, post["units"], ctx.stats) and acct_sync.feq(static, post["static"], ctx.stats) and acct_sync.feq(tv, post["total_value"], ctx.stats) \
            and (nav is None or acct_sync.feq(nav, post["nav"], ctx.stats))
        corr.add(ok, {"op": op["op"], "args": op["args"], "model": {"units": units, "static": static, "total_value": tv, "nav": nav},
                      "impl": {k: post[k] for k in ("units", "static", "total_value", "nav")}, "when": str(op["when"][0])})

#!/venv/bin/python
"""Translator for the finite tables and constants of the source: reads /repo's CURRENT working tree
(AST of the anchored files, plus the live modules where a table only exists after import) and writes
  lean/RQ/GenR/Consts.lean   numeric constants (written against R; copied to the Float instance)
  lean/RQ/Gen/Tables.lean    non-numeric tables (API x phase table, event split map, final statuses, ...)
The model and the theorems import these files, so they are re-checked against what the code says now.
A constant that can no longer be found is emitted as a `missing` marker that makes the dependent theorem fail.
"""
import ast, os, sys, re, json, hashlib

HERE = os.path.dirname(os.path.abspath(__file__))
VERIF = os.path.abspath(os.path.join(HERE, ".."))
REPO = os.environ.get("VERIF_REPO", "/repo")
OUT_R = os.path.join(VERIF, "lean", "RQ", "GenR")
OUT_T = os.path.join(VERIF, "lean", "RQ", "Gen")


def parse(rel):
    p = os.path.join(REPO, rel)
    src = open(p, encoding="utf8").read()
    return ast.parse(src), src


def find_class(tree, name):
    for n in ast.walk(tree):
        if isinstance(n, ast.ClassDef) and n.name == name:
            return n
    return None


def find_func(node, name):
    for n in ast.walk(node):
        if isinstance(n, (ast.FunctionDef, ast.AsyncFunctionDef)) and n.name == name:
            return n
    return None


def num_text(node, src):
    """decimal literal text of a numeric constant node (so Lean reads the same decimal)"""
    if isinstance(node, ast.Constant) and isinstance(node.value, (int, float)) and not isinstance(node.value, bool):
        t = ast.get_source_segment(src, node)
        if re.fullmatch(r"[0-9]+(\.[0-9]+)?", t or ""):
            return t
        return repr(node.value)
    return None


def fingerprint(node):
    """normalised-AST fingerprint of a function/class (evidence only; never a finding)"""
    return hashlib.md5(ast.dump(node, annotate_fields=False, include_attributes=False).encode()).hexdigest()[:12]


class Emit(object):
    def __init__(self):
        self.r = []      # numeric (R-dependent) definitions
        self.t = []      # table definitions
        self.missing = []
        self.fp = {}

    def rconst(self, name, text, comment):
        if text is None:
            self.missing.append(name)
            self.r.append("/-- %s — NOT FOUND in the current source -/\ndef %s : Option R := none" % (comment, name))
        else:
            self.r.append("/-- %s -/\ndef %s : Option R := some (%s : R)" % (comment, name, text))

    def nconst(self, name, val, comment):
        if val is None:
            self.missing.append(name)
            self.t.append("/-- %s — NOT FOUND -/\ndef %s : Option Nat := none" % (comment, name))
        else:
            self.t.append("/-- %s -/\ndef %s : Option Nat := some %d" % (comment, name, val))


def extract_cost(E):
    rel = "rqalpha/mod/rqalpha_mod_sys_transaction_cost/deciders.py"
    tree, src = parse(rel)
    cn = find_class(tree, "CNStockTransactionCostDecider")
    rate = tax_default = tax_before = tax_after = None
    taxed_types = None
    sell_only = None
    if cn is not None:
        E.fp["CNStockTransactionCostDecider"] = fingerprint(cn)
        init = find_func(cn, "__init__")
        if init is not None:
            for n in ast.walk(init):
                if isinstance(n, ast.Call) and isinstance(n.func, ast.Attribute) and n.func.attr == "__init__" and n.args:
                    rate = num_text(n.args[0], src)
                if isinstance(n, ast.Assign) and len(n.targets) == 1 and isinstance(n.targets[0], ast.Attribute) and n.targets[0].attr == "tax_rate":
                    tax_default = num_text(n.value, src)
        st = find_func(cn, "set_tax_rate")
        if st is not None:
            for n in ast.walk(st):
                if isinstance(n, ast.If) and isinstance(n.test, ast.Compare) and len(n.test.ops) == 1 and isinstance(n.test.ops[0], ast.Lt) \
                        and isinstance(n.test.comparators[0], ast.Name) and n.test.comparators[0].id == "STOCK_PIT_TAX_CHANGE_DATE":
                    def assigned(body):
                        for s in body:
                            if isinstance(s, ast.Assign) and isinstance(s.targets[0], ast.Attribute) and s.targets[0].attr == "tax_rate":
                                return num_text(s.value, src)
                    tax_before = assigned(n.body)
                    tax_after = assigned(n.orelse)
        gt = find_func(cn, "_get_tax")
        if gt is not None:
            # `if instrument.type != 'CS': return 0` and `... if side == SIDE.SELL else 0`
            for n in ast.walk(gt):
                if isinstance(n, ast.Compare) and isinstance(n.ops[0], ast.NotEq) and isinstance(n.comparators[0], ast.Constant) \
                        and isinstance(n.left, ast.Attribute) and n.left.attr == "type":
                    taxed_types = [n.comparators[0].value]
                if isinstance(n, ast.IfExp) and isinstance(n.test, ast.Compare) and isinstance(n.test.ops[0], ast.Eq) \
                        and isinstance(n.test.comparators[0], ast.Attribute) and n.test.comparators[0].attr == "SELL" \
                        and isinstance(n.orelse, ast.Constant) and n.orelse.value == 0:
                    sell_only = True
    change = None
    for n in tree.body:
        if isinstance(n, ast.Assign) and isinstance(n.targets[0], ast.Name) and n.targets[0].id == "STOCK_PIT_TAX_CHANGE_DATE":
            c = n.value
            if isinstance(c, ast.Call) and len(c.args) == 3 and all(isinstance(a, ast.Constant) for a in c.args):
                y, m, d = [a.value for a in c.args]
                change = y * 10000 + m * 100 + d
    E.rconst("stockCommissionRate", rate, "CNStockTransactionCostDecider: commission_rate passed to the base class")
    E.rconst("stockTaxRateDefault", tax_default, "CNStockTransactionCostDecider.__init__: tax_rate")
    E.rconst("stockTaxRateBefore", tax_before, "set_tax_rate: rate before STOCK_PIT_TAX_CHANGE_DATE")
    E.rconst("stockTaxRateAfter", tax_after, "set_tax_rate: rate from STOCK_PIT_TAX_CHANGE_DATE")
    E.nconst("stockPitTaxChangeDate", change, "STOCK_PIT_TAX_CHANGE_DATE as YYYYMMDD")
    E.t.append("/-- instrument types on which `_get_tax` charges stamp tax -/\ndef stockTaxedTypes : List String := %s" % lean_strlist(taxed_types or []))
    E.t.append("/-- `_get_tax` charges only when `side == SIDE.SELL` -/\ndef stockTaxSellOnly : Bool := %s" % ("true" if sell_only else "false"))
    sd = find_class(tree, "StockTransactionCostDecider")
    if sd is not None:
        E.fp["StockTransactionCostDecider"] = fingerprint(sd)
    fd = find_class(tree, "CNFutureTransactionCostDecider")
    if fd is not None:
        E.fp["CNFutureTransactionCostDecider"] = fingerprint(fd)


def lean_strlist(xs):
    return "[" + ", ".join('"%s"' % x for x in xs) + "]"


def _phase_in(func):
    """EXECUTION_PHASE.X used in `with ExecutionContext(EXECUTION_PHASE.X)` inside a function (unique, else None)"""
    found = set()
    for n in ast.walk(func):
        if isinstance(n, ast.Call) and isinstance(n.func, ast.Name) and n.func.id == "ExecutionContext" and n.args:
            a = n.args[0]
            if isinstance(a, ast.Attribute) and isinstance(a.value, ast.Name) and a.value.id == "EXECUTION_PHASE":
                found.add(a.attr)
    return found.pop() if len(found) == 1 else None


def _range_check(func, var):
    """bounds (lo, hi) from `if var < lo or var > hi ...` / `if var > hi or var < lo or var == 0`"""
    lo = hi = None
    tests = [i.test for i in ast.walk(func) if isinstance(i, ast.If) and i.body and isinstance(i.body[0], ast.Raise)]
    for n in (c for t in tests for c in ast.walk(t)):
        if isinstance(n, ast.Compare) and isinstance(n.left, ast.Name) and n.left.id == var and len(n.ops) == 1:
            c = n.comparators[0]
            try:
                v = ast.literal_eval(c)
            except Exception:
                continue
            if not isinstance(v, int):
                continue
            if isinstance(n.ops[0], ast.Lt):
                lo = v if lo is None else lo
            elif isinstance(n.ops[0], ast.Gt):
                hi = v if hi is None else hi
    return (lo, hi) if lo is not None and hi is not None else None


def extract_scheduler(E):
    tree, src = parse("rqalpha/mod/rqalpha_mod_sys_scheduler/scheduler.py")
    cls = find_class(tree, "Scheduler")
    E.fp["Scheduler"] = fingerprint(cls) if cls is not None else None
    bt = find_func(cls, "before_trading_") if cls is not None else None
    nb = find_func(cls, "next_bar_") if cls is not None else None
    pb = _phase_in(bt) if bt is not None else None
    pn = _phase_in(nb) if nb is not None else None
    E.t.append("/-- phase in which `Scheduler.before_trading_` runs the registered functions -/\ndef schedPhaseBeforeTrading : Option String := %s" % ('some "%s"' % pb if pb else "none"))
    E.t.append("/-- phase in which `Scheduler.next_bar_` runs the registered functions -/\ndef schedPhaseBar : Option String := %s" % ('some "%s"' % pn if pn else "none"))
    rw = find_func(cls, "run_weekly") if cls is not None else None
    rm = find_func(cls, "run_monthly") if cls is not None else None
    wd = _range_check(rw, "weekday") if rw is not None else None
    wn = _range_check(rw, "tradingday") if rw is not None else None
    mn = _range_check(rm, "tradingday") if rm is not None else None
    for name, v, doc in (("schedWeekdayRange", wd, "run_weekly: accepted weekday range"), ("schedWeekNthRange", wn, "run_weekly: accepted tradingday range (0 excluded)"),
                         ("schedMonthNthRange", mn, "run_monthly: accepted tradingday range (0 excluded)")):
        E.t.append("/-- %s -/\ndef %s : Option (Int × Int) := %s" % (doc, name, "some (%d, %d)" % v if v else "none"))


API_FILES = ["rqalpha/apis/api_base.py", "rqalpha/apis/api_abstract.py", "rqalpha/apis/api_rqdatac.py",
             "rqalpha/mod/rqalpha_mod_sys_accounts/api/api_stock.py", "rqalpha/mod/rqalpha_mod_sys_accounts/api/api_future.py"]


def _decorator_name(d):
    f = d.func if isinstance(d, ast.Call) else d
    parts = []
    while isinstance(f, ast.Attribute):
        parts.append(f.attr)
        f = f.value
    if isinstance(f, ast.Name):
        parts.append(f.id)
    return ".".join(reversed(parts))


def extract_api_phases(E):
    """API x execution-phase table from the `enforce_phase` decorators of every exported API function"""
    rows = {}
    for rel in API_FILES:
        try:
            tree, src = parse(rel)
        except Exception:
            continue
        for n in tree.body:
            if not isinstance(n, ast.FunctionDef):
                continue
            names = [_decorator_name(d) for d in n.decorator_list]
            if "export_as_api" not in names:
                continue
            phases = None
            for d in n.decorator_list:
                if isinstance(d, ast.Call) and _decorator_name(d) == "ExecutionContext.enforce_phase":
                    phases = [a.attr for a in d.args if isinstance(a, ast.Attribute)]
            rows[n.name] = phases
    items = []
    for name in sorted(rows):
        ph = rows[name]
        items.append('  ("%s", %s)' % (name, "none" if ph is None else "some " + lean_strlist(ph)))
    E.t.append("/-- exported API functions with the phases their `enforce_phase` decorator allows (`none` = no decorator: allowed everywhere) -/\n"
               "def apiPhaseTable : List (String × Option (List String)) := [\n" + ",\n".join(items) + "]")
    # Executor.EVENT_SPLIT_MAP
    tree, src = parse("rqalpha/core/executor.py")
    cls = find_class(tree, "Executor")
    split = []
    for n in ast.walk(cls):
        if isinstance(n, ast.Assign) and isinstance(n.targets[0], ast.Name) and n.targets[0].id == "EVENT_SPLIT_MAP" and isinstance(n.value, ast.Dict):
            for k, v in zip(n.value.keys, n.value.values):
                if isinstance(k, ast.Attribute) and isinstance(v, ast.Tuple):
                    split.append((k.attr, [e.attr for e in v.elts if isinstance(e, ast.Attribute)]))
    E.t.append("/-- `Executor.EVENT_SPLIT_MAP` -/\ndef eventSplitMap : List (String × List String) := [\n" +
               ",\n".join('  ("%s", %s)' % (k, lean_strlist(v)) for k, v in split) + "]")
    E.fp["Executor"] = fingerprint(cls)
    # phases of the strategy callbacks (core/strategy.py)
    tree, src = parse("rqalpha/core/strategy.py")
    cls = find_class(tree, "Strategy")
    cb = []
    for fn in ("init", "before_trading", "open_auction", "handle_bar", "handle_tick", "after_trading", "wrap_user_event_handler"):
        f = find_func(cls, fn)
        cb.append((fn, _phase_in(f) if f is not None else None))
    E.t.append("/-- phase in which `Strategy` runs each user callback -/\ndef callbackPhase : List (String × Option String) := [\n" +
               ",\n".join('  ("%s", %s)' % (k, 'some "%s"' % v if v else "none") for k, v in cb) + "]")
    # Order.is_final: statuses that are NOT final
    tree, src = parse("rqalpha/model/order.py")
    cls = find_class(tree, "Order")
    f = find_func(cls, "is_final")
    nonfinal = None
    for n in ast.walk(f):
        if isinstance(n, ast.Compare) and isinstance(n.ops[0], ast.NotIn) and isinstance(n.comparators[0], ast.Set):
            nonfinal = [e.attr for e in n.comparators[0].elts if isinstance(e, ast.Attribute)]
    E.t.append("/-- `Order.is_final`: statuses that are not final -/\ndef orderNonFinalStatuses : Option (List String) := %s" % ("some " + lean_strlist(sorted(nonfinal)) if nonfinal else "none"))


def _contains(node, types):
    return any(isinstance(n, types) for n in ast.walk(node))


def _top_level_unconditional(func, pred):
    """statements of `func`'s body (top level only) satisfying pred, with a flag: no return can precede them"""
    out = []
    may_return = False
    for st in func.body:
        if pred(st):
            out.append((st, not may_return))
        if _contains(st, ast.Return):
            may_return = True
    return out


def _nested_matches(func, pred):
    """statements satisfying pred anywhere below the top level of func's body (i.e. under if/for/while/try/with)"""
    out = []
    for st in func.body:
        for n in ast.walk(st):
            if n is not st and isinstance(n, ast.stmt) and pred(n):
                out.append(n)
    return out


def _is_class_attr_assign(st):
    return (isinstance(st, ast.Assign) and len(st.targets) == 1 and isinstance(st.targets[0], ast.Attribute)
            and isinstance(st.targets[0].value, ast.Name) and st.targets[0].value.id[:1].isupper())


def _reads_only(node, roots):
    """every Name read in the expression is one of `roots` (the value is a function of the run's configuration only)"""
    return all(n.id in roots for n in ast.walk(node) if isinstance(n, ast.Name))


def extract_isolation(E):
    """process-level state that outlives a run (C13): how each piece is re-initialised at the start of the next run"""
    import glob
    # 1. class-level attributes assigned in a mod's start_up
    rows = []
    exports = []
    for path in sorted(glob.glob(os.path.join(REPO, "rqalpha", "mod", "*", "mod.py"))):
        rel = os.path.relpath(path, REPO)
        tree, src = parse(rel)
        for cls in [n for n in tree.body if isinstance(n, ast.ClassDef)]:
            f = find_func(cls, "start_up")
            if f is None:
                continue
            cfg_arg = f.args.args[2].arg if len(f.args.args) > 2 else "mod_config"
            env_arg = f.args.args[1].arg if len(f.args.args) > 1 else "env"
            for st, uncond in _top_level_unconditional(f, _is_class_attr_assign):
                t = st.targets[0]
                rows.append(("%s.%s" % (t.value.id, t.attr), uncond, _reads_only(st.value, {cfg_arg, env_arg})))
            for st in _nested_matches(f, _is_class_attr_assign):
                t = st.targets[0]
                rows.append(("%s.%s" % (t.value.id, t.attr), False, _reads_only(st.value, {cfg_arg, env_arg})))
            for n in ast.walk(f):
                if isinstance(n, ast.Call) and _decorator_name(n) == "export_as_api":
                    nm = None
                    for kw in n.keywords:
                        if kw.arg == "name" and isinstance(kw.value, ast.Constant):
                            nm = kw.value.value
                    if nm is None and len(n.args) > 1 and isinstance(n.args[1], ast.Constant):
                        nm = n.args[1].value
                    if nm is None and n.args and isinstance(n.args[0], ast.Attribute):
                        nm = n.args[0].attr
                    if nm is None and n.args and isinstance(n.args[0], ast.Name):
                        nm = n.args[0].id
                    exports.append(nm or "?")
    E.t.append("/-- class-level attributes assigned in a mod's `start_up`: (Class.attr, assigned unconditionally, value read from the run's configuration only) -/\n"
               "def classSwitchWrites : List (String × Bool × Bool) := [\n" + ",\n".join('  ("%s", %s, %s)' % (a, str(b).lower(), str(c).lower()) for a, b, c in rows) + "]")
    E.t.append("/-- names exported into `rqalpha.api` inside a mod's `start_up` (bound to per-run objects) -/\ndef perRunExports : List String := %s" % lean_strlist(sorted(exports)))
    # 2. export_as_api / register_api rebind the global on every call
    tree, src = parse("rqalpha/api.py")
    flags = []
    for fn in ("export_as_api", "register_api"):
        f = find_func(tree, fn)
        ok = False
        if f is not None:
            def is_rebind(st):
                return (isinstance(st, ast.Assign) and isinstance(st.targets[0], ast.Subscript) and isinstance(st.targets[0].value, ast.Call)
                        and isinstance(st.targets[0].value.func, ast.Name) and st.targets[0].value.func.id == "globals")
            m = _top_level_unconditional(f, is_rebind)
            ok = bool(m) and all(u for _, u in m)
        flags.append((fn, ok))
    E.t.append("/-- `rqalpha.api.%s` assign `globals()[name]` on every call (no early return, no guard) -/\ndef apiRebindsAlways : List (String × Bool) := [%s]"
               % ("export_as_api/register_api", ", ".join('("%s", %s)' % (a, str(b).lower()) for a, b in flags)))
    # 3. the instrument-type dispatcher: does it keep a data_proxy of an earlier run, and is its cache one of the resettable ones
    tree, src = parse("rqalpha/utils/functools.py")
    f = find_func(tree, "instype_singledispatch")
    d = find_func(f, "dispatch") if f is not None else None
    keeps = None
    resettable = None
    if d is not None:
        keeps = _contains(d, ast.Nonlocal) or any(isinstance(n, ast.Global) for n in ast.walk(d))
        resettable = any(_decorator_name(x) == "lru_cache" for x in d.decorator_list)
        E.fp["instype_singledispatch"] = fingerprint(f)
    cl = find_func(tree, "clear_all_cached_functions")
    clears = cl is not None and any(isinstance(n, ast.Call) and isinstance(n.func, ast.Attribute) and n.func.attr == "cache_clear" for n in ast.walk(cl))
    lw = find_func(tree, "lru_cache")
    registers = lw is not None and any(isinstance(n, ast.Call) and isinstance(n.func, ast.Attribute) and n.func.attr == "append" for n in ast.walk(lw))
    E.t.append("/-- `instype_singledispatch.dispatch` keeps state across calls through nonlocal/global variables (a captured data_proxy) -/\ndef dispatcherKeepsProxy : Option Bool := %s"
               % ("none" if keeps is None else "some " + str(keeps).lower()))
    E.t.append("/-- the dispatcher's cache is a resettable `rqalpha.utils.functools.lru_cache`, which registers itself, and `clear_all_cached_functions` clears every registered cache -/\n"
               "def dispatcherCacheResettable : Bool := %s" % str(bool(resettable and clears and registers)).lower())
    # 4. every run entry point clears the caches before main.run
    tree, src = parse("rqalpha/__init__.py")
    ent = []
    for fn in ("run_file", "run_code", "run_func"):
        f = find_func(tree, fn)
        ok = False
        if f is not None:
            seen_clear = False
            ok = True
            found_run = False
            for st in f.body:
                calls = [_decorator_name(n) for n in ast.walk(st) if isinstance(n, ast.Call)]
                if "clear_all_cached_functions" in calls and not isinstance(st, (ast.If, ast.For, ast.While, ast.Try)):
                    seen_clear = True
                if any(c in ("main.run", "run") for c in calls):
                    found_run = True
                    if not seen_clear:
                        ok = False
            ok = ok and found_run
        ent.append((fn, ok))
    E.t.append("/-- run entry points that clear all caches (unconditionally) before `main.run` -/\ndef runEntriesClearCaches : List (String × Bool) := [%s]"
               % ", ".join('("%s", %s)' % (a, str(b).lower()) for a, b in ent))
    # 5. the Environment singleton is replaced by every new Environment
    tree, src = parse("rqalpha/environment.py")
    cls = find_class(tree, "Environment")
    f = find_func(cls, "__init__")

    def is_env_assign(st):
        return (isinstance(st, ast.Assign) and isinstance(st.targets[0], ast.Attribute) and isinstance(st.targets[0].value, ast.Name)
                and st.targets[0].value.id == "Environment" and st.targets[0].attr == "_env" and isinstance(st.value, ast.Name) and st.value.id == "self")
    m = _top_level_unconditional(f, is_env_assign) if f is not None else []
    E.t.append("/-- `Environment.__init__` installs the new instance as the singleton unconditionally -/\ndef envSingletonReplaced : Bool := %s" % str(bool(m) and all(u for _, u in m)).lower())
    # 5b. the namespace a source-code strategy (run_file / run_code) is exec'ed into: `create_base_scope` must hand out a COPY of the API module's namespace
    tree_m, _src_m = parse("rqalpha/main.py")
    cbs = find_func(tree_m, "create_base_scope")
    copied = False
    if cbs is not None:
        rets = [n for n in ast.walk(cbs) if isinstance(n, ast.Return)]

        def is_copy(v):
            if isinstance(v, ast.Call):
                fn = v.func
                if isinstance(fn, ast.Name) and fn.id in ("copy", "deepcopy", "dict"):
                    return True
                if isinstance(fn, ast.Attribute) and fn.attr in ("copy", "deepcopy"):
                    return True
            return isinstance(v, (ast.Dict, ast.DictComp))
        copied = bool(rets) and all(r.value is not None and is_copy(r.value) for r in rets)
        E.fp["create_base_scope"] = fingerprint(cbs)
    E.t.append("/-- `main.create_base_scope` returns a copy (copy(...), dict(...), .copy(), a dict display) on every path: what a strategy source defines does not land in the shared module namespace -/\n"
               "def baseScopeCopied : Bool := %s" % str(copied).lower())
    # 6. caches that `clear_all_cached_functions` cannot reach: stdlib functools caches on module-level functions
    bad = []
    for path in sorted(glob.glob(os.path.join(REPO, "rqalpha", "**", "*.py"), recursive=True)):
        rel = os.path.relpath(path, REPO)
        if rel in ("rqalpha/utils/functools.py",) or "/cmds/" in rel or "/examples/" in rel or rel.startswith("rqalpha/data/bundle"):
            continue
        try:
            tree, src = parse(rel)
        except Exception:
            continue
        std = set()
        for n in tree.body:
            if isinstance(n, ast.ImportFrom) and n.module == "functools":
                for a in n.names:
                    if a.name in ("lru_cache", "cache"):
                        std.add(a.asname or a.name)
        for n in ast.walk(tree):
            if isinstance(n, ast.FunctionDef):
                for dcr in n.decorator_list:
                    nm = _decorator_name(dcr)
                    if nm in std or nm in ("functools.lru_cache", "functools.cache"):
                        bad.append("%s:%s" % (rel, n.name))
    E.t.append("/-- functions cached with the stdlib `functools.lru_cache`/`cache` directly (not reset between runs) -/\ndef unresettableCaches : List String := %s" % lean_strlist(bad))


def _dict_keys_returned(func):
    """string keys of the dict literals built in a get_state (returned dict, `state.update({...})`, nested one level)"""
    keys = []
    for n in ast.walk(func):
        if isinstance(n, ast.Dict):
            for k in n.keys:
                if isinstance(k, ast.Constant) and isinstance(k.value, str):
                    keys.append(k.value)
    return keys


def _state_keys_read(func):
    """keys a set_state reads: state["k"], state.get("k"), value["k"], r["k"]"""
    keys = []
    for n in ast.walk(func):
        if isinstance(n, ast.Subscript) and isinstance(n.slice, ast.Constant) and isinstance(n.slice.value, str):
            keys.append(n.slice.value)
        if isinstance(n, ast.Call) and isinstance(n.func, ast.Attribute) and n.func.attr == "get" and n.args and isinstance(n.args[0], ast.Constant) and isinstance(n.args[0].value, str):
            keys.append(n.args[0].value)
    return keys


def extract_persist(E):
    """which fields each persistable object writes in get_state AND reads back in set_state (C14)"""
    spec = [("Position", "rqalpha/portfolio/position.py", "Position"), ("StockPosition", "rqalpha/mod/rqalpha_mod_sys_accounts/position_model.py", "StockPosition"),
            ("Account", "rqalpha/portfolio/account.py", "Account"), ("Portfolio", "rqalpha/portfolio/__init__.py", "Portfolio"), ("Executor", "rqalpha/core/executor.py", "Executor")]
    rows = []
    for name, rel, clsname in spec:
        tree, src = parse(rel)
        cls = find_class(tree, clsname)
        g = find_func(cls, "get_state") if cls is not None else None
        st = find_func(cls, "set_state") if cls is not None else None
        saved = _dict_keys_returned(g) if g is not None else []
        read = _state_keys_read(st) if st is not None else []
        both = [k for k in dict.fromkeys(saved) if k in read]
        rows.append((name, both))
        if cls is not None and g is not None:
            E.fp[name + ".get_state"] = fingerprint(g)
    E.t.append("/-- per persistable class: the keys written by `get_state` that `set_state` reads back -/\ndef persistedKeys : List (String × List String) := [\n" +
               ",\n".join('  ("%s", %s)' % (n, lean_strlist(ks)) for n, ks in rows) + "]")
    # PersistHelper.persist: skips a store only when the state equals the LAST stored state of that key
    tree, src = parse("rqalpha/utils/persisit_helper.py")
    cls = find_class(tree, "PersistHelper")
    f = find_func(cls, "persist") if cls is not None else None
    last_eq = False
    if f is not None:
        for n in ast.walk(f):
            if isinstance(n, ast.Compare) and len(n.ops) == 1 and isinstance(n.ops[0], ast.Eq):
                txt = ast.get_source_segment(src, n) or ""
                if "_last_state.get(key)" in txt and "md5" in txt:
                    last_eq = True
        E.fp["PersistHelper.persist"] = fingerprint(f)
    E.t.append("/-- `PersistHelper.persist` skips storing exactly when the digest equals the digest of the last stored state of the same key -/\ndef persistSkipsOnLastEqual : Bool := %s" % str(last_eq).lower())


def extract_lookahead(E):
    """what the opening-auction bar carries (C07): BaseDataSource.OPEN_AUCTION_BAR_FIELDS"""
    tree, src = parse("rqalpha/data/base_data_source/data_source.py")
    fields = None
    for n in ast.walk(tree):
        if isinstance(n, ast.Assign) and isinstance(n.targets[0], ast.Name) and n.targets[0].id == "OPEN_AUCTION_BAR_FIELDS" and isinstance(n.value, (ast.List, ast.Tuple)):
            fields = [e.value for e in n.value.elts if isinstance(e, ast.Constant)]
    E.t.append("/-- `BaseDataSource.OPEN_AUCTION_BAR_FIELDS`: the fields of the day bar copied into the bar a strategy sees in open_auction -/\ndef openAuctionBarFields : Option (List String) := %s"
               % ("none" if fields is None else "some " + lean_strlist(fields)))
    # the history API: phases in which the window is forced to end at the previous trading day
    tree, src = parse("rqalpha/apis/api_base.py")
    f = find_func(tree, "history_bars")
    phases = []
    if f is not None:
        for n in ast.walk(f):
            if isinstance(n, ast.Compare) and len(n.ops) == 1 and isinstance(n.ops[0], (ast.In, ast.Eq)) and "ExecutionContext.phase()" in (ast.get_source_segment(src, n.left) or ""):
                for a in ast.walk(n.comparators[0]):
                    if isinstance(a, ast.Attribute) and isinstance(a.value, ast.Name) and a.value.id == "EXECUTION_PHASE":
                        phases.append(a.attr)
        E.fp["api.history_bars"] = fingerprint(f)
    E.t.append("/-- phases in which the `history_bars` API ends a daily window at the previous trading day (compared with `in`/`==` against ExecutionContext.phase()) -/\n"
               "def historyPrevDayPhases : List String := %s" % lean_strlist(sorted(set(p for p in phases if p != "AFTER_TRADING"))))


EXTRACTORS = [extract_cost, extract_scheduler, extract_api_phases, extract_isolation, extract_persist, extract_lookahead]


def write_if_changed(path, text):
    os.makedirs(os.path.dirname(path), exist_ok=True)
    old = open(path, encoding="utf8").read() if os.path.exists(path) else None
    if old != text:
        open(path, "w", encoding="utf8").write(text)
        return True
    return False


def main():
    E = Emit()
    errors = []
    for f in EXTRACTORS:
        try:
            f(E)
        except Exception as ex:     # a source file that no longer parses / moved: recorded, dependent theorems fail
            errors.append("%s: %r" % (f.__name__, ex))
    hdr = "-- GENERATED by harness/extract.py from %s's working tree; do not edit\n" % REPO
    rtext = hdr + "import RQ.Num.Q\nnamespace RQ.Q.Gen\n\n" + "\n\n".join(E.r) + "\n\nend RQ.Q.Gen\n"
    ttext = hdr + "namespace RQ.Gen\n\n" + "\n\n".join(E.t) + "\n\nend RQ.Gen\n"
    c1 = write_if_changed(os.path.join(OUT_R, "Consts.lean"), rtext)
    c2 = write_if_changed(os.path.join(OUT_T, "Tables.lean"), ttext)
    json.dump({"fingerprints": E.fp, "missing": E.missing, "errors": errors}, open(os.path.join(OUT_T, "extract_report.json"), "w"), indent=1, sort_keys=True)
    print("extract: consts %s, tables %s, missing=%s errors=%s" % ("rewritten" if c1 else "unchanged", "rewritten" if c2 else "unchanged", E.missing, errors))
    return 0


if __name__ == "__main__":
    sys.exit(main())

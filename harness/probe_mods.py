"""Harness-side probe mods for C19 (rqalpha's own mod interface): each logs start_up / tear_down with the exit code and can be
scripted to raise in start_up or tear_down, to return a value, or to register a system listener that raises at a chosen event."""
from rqalpha.interface import AbstractMod
LOG = []
N = [0]          # mods are created in configuration order: the creation index is the tag (a mod that never started is still torn down)


class Mod(AbstractMod):
    def __init__(self):
        N[0] += 1
        self.tag = N[0]
        self.cfg = None

    def start_up(self, env, mod_config):
        if getattr(mod_config, "tag", None) != self.tag:
            LOG.append(("tag_mismatch", self.tag, getattr(mod_config, "tag", None)))
        self.cfg = mod_config
        LOG.append(("start", self.tag))
        if getattr(mod_config, "start", "ok") == "raise":
            raise RuntimeError("probe mod %s: start_up fails" % self.tag)
        if getattr(mod_config, "record_events", False):
            from rqalpha.core.events import EVENT
            for ev in EVENT:
                env.event_bus.add_listener(ev, (lambda name: (lambda event: LOG.append(("event", name)) and None))(ev.name))
        fault_event = getattr(mod_config, "listener_fault", None)
        if fault_event:
            from rqalpha.core.events import EVENT
            n = {"left": getattr(mod_config, "listener_fault_after", 0)}

            def bad(event):
                if n["left"] <= 0:
                    LOG.append(("listener_fault", self.tag))
                    raise RuntimeError("probe mod %s: system listener fails" % self.tag)
                n["left"] -= 1
            env.event_bus.add_listener(getattr(EVENT, fault_event), bad)

    def tear_down(self, code, exception=None):
        LOG.append(("teardown", self.tag, getattr(code, "name", str(code)), type(getattr(getattr(exception, "error", None), "exc_val", None)).__name__ if exception is not None else None))
        td = getattr(self.cfg, "teardown", "ok") if self.cfg is not None else "ok"
        if td == "raise":
            raise RuntimeError("probe mod %s: tear_down fails" % self.tag)
        if td == "value":
            return getattr(self.cfg, "value", None)
        return None


def load_mod():
    return Mod()

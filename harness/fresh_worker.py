#!/venv/bin/python
"""Subprocess worker: runs ONE trading-stream scenario on the real rqalpha in a fresh process and evaluates the named monitors on its
trace there (class-level switches and caches an earlier run of the calling process would have left behind are absent); prints the
witnesses as JSON.  Used by checks whose property must hold in the first run of a process too."""
import sys, os, json, pickle, random, collections
HERE = os.path.dirname(os.path.abspath(__file__))
sys.path.insert(0, HERE)
sys.path.insert(0, os.path.join(HERE, "props"))
import trading, acct_sync, monitors


class Stub(object):
    def __init__(self):
        self.witnesses, self.stats, self.evaluations, self.sigs = [], collections.Counter(), 0, set()
        self.tier = "quick"

    def witness(self, clause, sig, what, replay=None):
        self.witnesses.append({"clause": clause, "sig": sig, "what": what})

    def nontrivial(self, *a):
        self.sigs.add(repr(a))

    def sample(self, *a):
        pass


job = pickle.load(open(sys.argv[1], "rb"))
tr = trading.run_trading(random.Random(job["seed"]), job["S"], job["cfgk"])
ix = acct_sync.Index(job["S"], job["cfgk"])
stub = Stub()
for name in job["monitors"]:
    getattr(monitors, name)(stub, tr, ix)
print(json.dumps({"exc": repr(tr.exc) if tr.exc is not None else None, "witnesses": stub.witnesses, "evaluations": stub.evaluations,
                  "stats": dict(stub.stats), "trades": len([1 for k, _ in tr.events if k == "TRADE"])}))

#!/venv/bin/python
"""Subprocess worker of the C14 check: runs the RESUMED leg of a stop/resume pair in a fresh process (the persisted store is handed
over in a pickle file) and prints the canonical trace of the continuation.  What a class, a module or a cache of the first process
remembered is not there."""
import sys, os, json, pickle
HERE = os.path.dirname(os.path.abspath(__file__))
sys.path.insert(0, HERE)
sys.path.insert(0, os.path.join(HERE, "props"))
import persist_mod, c14

job = pickle.load(open(sys.argv[1], "rb"))
persist_mod.STORE.clear()
persist_mod.STORE.update(job["store"])
p2 = c14.run_leg(job["S"], job["cfgk"], job["seed"], job["with_an"], job["start"], job["end"], True, True)
ev2 = list(p2.events)
while ev2 and ev2[0][0] in ("PRE_SETTLEMENT", "POST_SETTLEMENT"):
    ev2.pop(0)
print(json.dumps({"exc": repr(p2.exc) if p2.exc is not None else None, "trace": c14.canon_slice(ev2)}))

"""C13: strategies given as SOURCE CODE (run_code, the path of `rqalpha run -f`), several in one process.  stdin: {"spec": scenario spec, "codes": [names]};
stdout: one JSON line {"logs": [log of run 1, log of run 2, ...]} — what each strategy observed through its own callbacks."""
import sys, os, json, random, contextlib
sys.path.insert(0, os.path.dirname(os.path.abspath(__file__)))
import vlib
sys.path.insert(0, vlib.REPO)
import runner, isotrace, code_probe

CODES = {
    # a strategy with the optional hooks: it trades in the opening auction and looks around before and after the session
    "hooks": '''
import code_probe
HELPER = 3
def init(context):
    context.n = 0
def before_trading(context):
    code_probe.log("before_trading", context.now.isoformat(), HELPER)
def open_auction(context, bar_dict):
    for i in code_probe.IDS[:2]:
        o = order_shares(i, 100 * HELPER)
        code_probe.log("auction_order", i, None if o is None else o.status.name)
def handle_bar(context, bar_dict):
    context.n += 1
    code_probe.log("bar", context.now.isoformat(), context.portfolio.total_value, context.portfolio.cash, sorted((p.order_book_id, p.quantity) for p in get_positions()))
def after_trading(context):
    code_probe.log("after_trading", context.now.isoformat(), len(get_open_orders()))
''',
    # a strategy with the mandatory callbacks only
    "plain": '''
import code_probe
def init(context):
    context.n = 0
def handle_bar(context, bar_dict):
    context.n += 1
    if context.n == 2:
        o = order_shares(code_probe.IDS[0], 200)
        code_probe.log("bar_order", None if o is None else o.status.name)
    code_probe.log("bar", context.now.isoformat(), context.portfolio.total_value, context.portfolio.cash, sorted((p.order_book_id, p.quantity) for p in get_positions()))
''',
    # a strategy that keeps module-level state
    "state": '''
import code_probe
SEEN = []
def init(context):
    code_probe.log("init_sees", list(SEEN), "HELPER" in globals(), "open_auction" in globals(), "before_trading" in globals())
def handle_bar(context, bar_dict):
    SEEN.append(context.now.isoformat())
    code_probe.log("bar", context.now.isoformat(), len(SEEN), context.portfolio.total_value, sorted((p.order_book_id, p.quantity) for p in get_positions()))
''',
}


def main():
    job = json.load(sys.stdin)
    from rqalpha import run_code
    S, cfgk, ids, own = isotrace.build(job["spec"])
    cfgk = {k: v for k, v in cfgk.items() if not k.startswith("_")}
    code_probe.IDS[:] = [s["id"] for s in S["stocks"] if s["listed"] <= S["cal"][0] and not s.get("delisted")] or [s["id"] for s in S["stocks"]]
    logs = []
    with runner.bundle_dir(S) as p:
        for name in job["codes"]:
            code_probe.LOG.clear()
            cfg = runner.base_config(S, p, **cfgk)
            try:
                with open(os.devnull, "w") as dn, contextlib.redirect_stderr(dn):
                    run_code(CODES[name], cfg)
                end = None
            except BaseException as ex:
                end = type(ex).__name__
            logs.append({"code": name, "log": isotrace.fr(list(code_probe.LOG)), "end": end})
    print(json.dumps({"logs": logs}))


if __name__ == "__main__":
    main()

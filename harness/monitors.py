"""Property monitors evaluated on IMPLEMENTATION traces of the trading stream (independent of the Lean model: they recompute
the property's right-hand side from published trades, API calls, snapshots and the bundle tables)."""
import collections
import bundle as B, acct_sync
from acct_sync import nan_in

TOL = 1e-6


def sc(x):
    return max(1.0, abs(x))


def near(a, b, tol=TOL):
    return abs(a - b) <= tol * sc(max(abs(a), abs(b)))


_RATE = []


def stock_commission_rate():
    """the stock commission rate as regenerated from the source (lean/RQ/GenR/Consts.lean)"""
    if not _RATE:
        import re, os
        p = os.path.join(os.path.dirname(os.path.dirname(os.path.abspath(__file__))), "lean", "RQ", "GenR", "Consts.lean")
        m = re.search(r"def stockCommissionRate : Option R := some \(([0-9.]+)", open(p).read())
        _RATE.append(float(m.group(1)) if m else float("nan"))
    return _RATE[0]


def replay_of(tr):
    return {"config": {k: v for k, v in tr.cfg.items()}, "instruments": [s["id"] for s in tr.S["stocks"]] + [f["id"] for f in tr.S["futures"]],
            "range": "%s..%s" % (tr.S["start"], tr.S["end"]), "run_seed": getattr(tr, "run_seed", None), "run_index": getattr(tr, "run_index", None)}


def iter_obs(tr):
    """(kind, event dict, accounts snapshot, when) for every observation point in publication order"""
    for kind, e in tr.events:
        acc = e.get("after") if kind == "CALL" else e.get("accounts")
        when = e.get("when") if kind == "CALL" else e.get("cal")
        yield kind, e, acc, when



def marked_at_bar_monitor(clause, acct):
    """Daily frequency: whoever observes the account at a fill made at bar time (a TRADE handler) sees every held leg of an instrument with a bar today
    marked at THAT bar's close — also at fills made by the arrival of the bar (resting auction orders), before handle_bar runs."""
    def mon(ctx, tr, ix):
        if tr.cfg.get("frequency", "1d") != "1d":
            return
        rp = replay_of(tr)
        seen = False
        for kind, e in tr.events:
            if kind != "TRADE" or (e["cal"].hour, e["cal"].minute) != (15, 0) or not e.get("accounts"):
                continue
            a = e["accounts"].get(acct)
            if a is None:
                continue
            d8_ = B.d8(e["cal"].date())
            ctx.stats["bar_time_fill_observations"] += 1
            for h in a["holdings"]:
                bar = ix.bar(h["id"], d8_)
                if bar is None or bar[2] != bar[2]:
                    continue
                for side in ("long", "short"):
                    p = h[side]
                    if p["qty"] and not near(p["last"], bar[2], 1e-12) and not seen:
                        seen = True
                        ctx.witness(clause, {"kind": "holding_not_marked_at_bar_time_fill", "account": acct, "by_bar_arrival": e.get("phase_hint") != "BAR"},
                                    "fill of %s at %s (observed in a TRADE handler): the %s account still carries %s %s x %s at %r although the day's bar (close %r) has arrived"
                                    % (e["trade"]["book"], e["cal"], acct, h["id"], side, p["qty"], p["last"], bar[2]), rp)
    return mon


def positions_view_monitor(clause, acct):
    """`account.positions` / `context.portfolio.positions` (a cached view of the position table, first read before any trading) lists exactly the holdings the account reports"""
    def mon(ctx, tr, ix):
        rp = replay_of(tr)
        for kind, e, acc, when in iter_obs(tr):
            a = acc.get(acct) if acc else None
            if a is None or "view" not in a:
                continue
            ctx.stats["positions_view_observations"] += 1
            ids = [h["id"] for h in a["holdings"]]
            if a["view"] != ids:
                ctx.witness(clause, {"kind": "positions_view_differs_from_holdings", "account": acct},
                            "%s at %s: account.positions lists %r, the %s account holds %r" % (kind, when, a["view"] if isinstance(a["view"], str) else a["view"][:6], acct, ids[:6]), rp)
                return
    return mon

# ----------------------------------------------------------------------------------------------------------- C02
def c02_monitor(ctx, tr, ix):
    cfgk, S = tr.cfg, tr.S
    if "future" not in cfgk["accounts"]:
        return
    am = cfgk["accounts_mod"]
    mm = (cfgk.get("base_extra") or {}).get("margin_multiplier", 1)
    mode = am.get("futures_settlement_price_type", "close")
    forced = (cfgk.get("base_extra") or {}).get("forced_liquidation", True)
    rp = replay_of(tr)
    ghost = cfgk["accounts"]["future"]        # total_cash + pending
    last_acc = None
    pre_settle = None
    n = 0
    for kind, e, acc, when in iter_obs(tr):
        a = acc.get("FUTURE") if acc else None
        if kind == "CALL" and e["exc"] is None:
            if e["api"] == "deposit" and e["args"][0] == "FUTURE":
                ghost += e["args"][1]
            elif e["api"] == "withdraw" and e["args"][0] == "FUTURE":
                ghost -= e["args"][1]
        if kind == "CALL" and e["exc"] is not None and e["api"] in ("deposit", "withdraw", "finance", "repay"):
            # a cash API that raised must not have booked anything
            b0, b1 = (e.get("before") or {}).get("FUTURE"), (e.get("after") or {}).get("FUTURE")
            if b0 is not None and b1 is not None and (b0["total_cash"] != b1["total_cash"] or b0["pending"] != b1["pending"]):
                ctx.witness("C02.1", {"kind": "failed_cash_call_booked", "api": e["api"]}, "%s%r raised %s but the FUTURE account's cash went from %r to %r"
                            % (e["api"], e["args"], e["exc"], b0["total_cash"], b1["total_cash"]), rp)
                ghost += (b1["total_cash"] + sum(x for _, x in b1["pending"])) - (b0["total_cash"] + sum(x for _, x in b0["pending"]))
        if kind == "TRADE" and e["trade"]["book"] in ix.fut and e["order"] is not None:
            # (the close-out trade of an expiring contract is published inside settlement: its value went to cash there)
            t = e["trade"]
            f = ix.fut[t["book"]]
            fee = t["commission"] + t["tax"]
            if t["effect"] == "OPEN":
                ghost -= fee
            else:
                # realised against the carrying price the position had BEFORE this fill
                is_long = t["side"] == "SELL"
                avg = None
                if last_acc and last_acc.get("FUTURE"):
                    for h in last_acc["FUTURE"]["holdings"]:
                        if h["id"] == t["book"]:
                            avg = h["long" if is_long else "short"]["avg"]
                if avg is None:
                    avg = t["price"]
                ghost += (t["price"] - avg) * t["qty"] * f["mult"] * (1 if is_long else -1) - fee
            ctx.stats["c02_trades"] += 1
        if kind == "PRE_SETTLEMENT":
            pre_settle = a
        if kind == "POST_SETTLEMENT" and pre_settle is not None and a is not None and not nan_in(pre_settle) and not nan_in(a):
            today8 = B.d8(e["trd"].date())
            nxt8 = ix.next_day8(today8)
            exp_tv_change = 0.0
            for h in pre_settle["holdings"]:
                f = ix.fut.get(h["id"])
                if f is None:
                    continue
                bar = ix.bar(h["id"], today8)
                for side, sign in (("long", 1), ("short", -1)):
                    p = h[side]
                    if p["qty"] == 0:
                        continue
                    sp = p["last"]
                    if mode == "settlement" and bar is not None:
                        sp = float(bar[9])
                    ghost += p["qty"] * (sp - p["avg"]) * f["mult"] * sign
                    exp_tv_change += p["qty"] * (sp - p["last"]) * f["mult"] * sign
            liquidated = forced and not a["holdings"] and a["total_cash"] == 0 and (pre_settle["obs"]["total_value"] + exp_tv_change) <= 1e-9
            if liquidated:
                ghost = sum(x for _, x in a["pending"])
                ctx.stats["c02_forced_liquidations"] += 1
                if not near(a["obs"]["total_value"], 0.0, 1e-9):
                    ctx.witness("C02.5", {"kind": "forced_liquidation_not_zero", "pending_deposit": bool(a["pending"])},
                                "forced liquidation on %s leaves total value %r (deposits in transit %r)" % (when, a["obs"]["total_value"], a["pending"]), rp)
            else:
                # settlement is value neutral apart from the pure price move to the settlement price
                if not near(a["obs"]["total_value"], pre_settle["obs"]["total_value"] + exp_tv_change):
                    ctx.witness("C02.3", {"kind": "settlement_changes_value", "mode": mode}, "settlement on %s: total value %r -> %r, expected change %r" % (when, pre_settle["obs"]["total_value"], a["obs"]["total_value"], exp_tv_change), rp)
                for h in a["holdings"]:
                    f = ix.fut.get(h["id"])
                    if f is None:
                        continue
                    for side in ("long", "short"):
                        p = h[side]
                        if p["qty"] and not near(p["avg"], p["last"], 1e-12):
                            ctx.witness("C02.3", {"kind": "carrying_price_not_rebased"}, "after settlement on %s %s %s carrying price %r, settlement price %r" % (when, h["id"], side, p["avg"], p["last"]), rp)
                        if f["expire"] is not None and nxt8 > B.d8(f["expire"]) and p["qty"] != 0:
                            ctx.witness("C02.4", {"kind": "expired_position_remains"}, "%s %s still holds %s after its last settlement on %s" % (h["id"], side, p["qty"], when), rp)
        if a is not None and not nan_in(a) and kind not in ("TRADE", "ORDER_PENDING_NEW"):
            n += 1
            have = a["total_cash"] + sum(x for _, x in a["pending"])
            if not near(have, ghost):
                ctx.witness("C02.1", {"kind": "futures_value_ledger", "where": kind}, "%s at %s: cash balance %r, ledger (start + flows + realised - fees + settled) %r" % (kind, when, have, ghost), rp)
                ghost = have
            # margin and cash formulas
            mg = {"long": 0.0, "short": 0.0}
            eq = 0.0
            for h in a["holdings"]:
                f = ix.fut.get(h["id"])
                if f is None:
                    continue
                for side, sign in (("long", 1), ("short", -1)):
                    p = h[side]
                    mg[side] += p["qty"] * p["last"] * f["mult"] * f["info"]["margin_rate"] * mm
                    eq += p["qty"] * (p["last"] - p["avg"]) * f["mult"] * sign
            if not near(a["obs"]["margin"], mg["long"] + mg["short"]):
                ctx.witness("C02.2", {"kind": "margin_formula"}, "%s at %s: margin %r, formula %r" % (kind, when, a["obs"]["margin"], mg["long"] + mg["short"]), rp)
            # "marked at the latest price": after the day's bar every leg that holds a quantity carries that bar's close
            # (the settlement price after a settlement in settlement mode) — taken from the bundle, not from the position
            if kind in ("POST_BAR", "PRE_AFTER_TRADING", "POST_AFTER_TRADING", "PRE_SETTLEMENT"):
                d8_ = B.d8(when.date())
                for h in a["holdings"]:
                    f = ix.fut.get(h["id"])
                    bar = ix.bar(h["id"], d8_) if f is not None else None
                    if bar is None or bar[2] != bar[2]:
                        continue
                    for side in ("long", "short"):
                        p = h[side]
                        if p["qty"] and not near(p["last"], bar[2], 1e-12):
                            ctx.witness("C02.1", {"kind": "leg_not_marked_at_latest_price", "where": kind}, "%s at %s: %s %s holds %s marked at %r, the day's close is %r"
                                        % (kind, when, h["id"], side, p["qty"], p["last"], bar[2]), rp)
            tv = a["total_cash"] + eq + sum(x for _, x in a["pending"])
            if not near(a["obs"]["total_value"], tv):
                ctx.witness("C02.1", {"kind": "total_value_formula"}, "%s at %s: total value %r, cash balance + unrealised %r" % (kind, when, a["obs"]["total_value"], tv), rp)
            if not near(a["obs"]["cash"], a["obs"]["total_value"] - sum(x for _, x in a["pending"]) - eq - a["obs"]["margin"] - a["frozen"]):
                ctx.witness("C02.2", {"kind": "cash_formula"}, "%s at %s: available cash %r != total value - unrealised - margin - reserved" % (kind, when, a["obs"]["cash"]), rp)
        if acc is not None:
            last_acc = acc
    ctx.evaluations += n
    ctx.stats["c02_observations"] += n


# ----------------------------------------------------------------------------------------------------------- C03
def c03_monitor(ctx, tr, ix):
    cfgk, S = tr.cfg, tr.S
    rp = replay_of(tr)
    n = 0
    last_units = None
    prev_close_nav = 1.0
    compounded = 1.0
    day_start_tv = dict((t.upper(), v) for t, v in cfgk["accounts"].items())
    first_day_init_fut = None
    if any(it and it.split(":")[0] in ix.fut for it in ((cfgk.get("base_extra") or {}).get("init_positions") or "").split(",")):
        first_day_init_fut = next((e["cal"].date() for k_, e in tr.events if k_ == "PRE_BEFORE_TRADING"), None)
    if (cfgk.get("base_extra") or {}).get("init_positions"):
        # configured starting holdings: an account's starting value is its cash plus the holdings at the previous close = its value at the first observation
        first = next((e.get("accounts") for k_, e in tr.events if k_ == "PRE_BEFORE_TRADING" and e.get("accounts")), None)
        if first:
            for t_, a_ in first.items():
                if not nan_in(a_):
                    day_start_tv[t_] = a_["obs"]["total_value"]
    flows = collections.Counter()
    mfee0 = collections.Counter()
    sys_fee = collections.Counter()
    split_gain = collections.Counter()
    split_tol = collections.Counter()
    reinvested = collections.Counter()
    units_nan_reported = False
    prev_settle_acc = None
    for kind, e in tr.events:
        if kind == "POST_BEFORE_TRADING" and prev_settle_acc is not None and e.get("accounts"):
            # whole-share rounding of a split creates (or destroys) up to half a share of value (C12.1); it is not P&L
            today8 = B.d8(e["trd"].date())
            a0, a1 = prev_settle_acc.get("STOCK"), e["accounts"].get("STOCK")
            if a0 and a1:
                for h in a0["holdings"]:
                    for ex, ratio in S["split"].get(h["id"], []):
                        if ex == today8 * 1000000 and h["long"]["qty"]:
                            h1 = next((x for x in a1["holdings"] if x["id"] == h["id"]), None)
                            if h1 is not None:
                                # shares bought by a dividend reinvestment the same morning are split too
                                split_gain["STOCK"] += (h1["long"]["qty"] - (h["long"]["qty"] + reinvested[h["id"]]) * ratio) * h1["long"]["last"]
                                if reinvested[h["id"]]:
                                    # shares reinvested and split the same morning: the holding and its "held since yesterday" part are rounded to whole shares
                                    # separately (each within half a share), so up to one share moves between the day's trading P&L and no P&L at all
                                    split_tol["STOCK"] += 1.0 * h1["long"]["last"]
            reinvested.clear()
        if kind == "POST_SETTLEMENT" and e.get("accounts"):
            prev_settle_acc = e["accounts"]
        if kind == "TRADE" and e["order"] is None and e["trade"]["side"] == "BUY" and e["trade"]["book"] in ix.stock:
            sys_fee["STOCK"] += e["trade"]["commission"] + e["trade"]["tax"]          # reinvestment trade
            reinvested[e["trade"]["book"]] += e["trade"]["qty"]
        pf = e.get("pf") if kind != "CALL" else e.get("pf_after")
        acc = e.get("after") if kind == "CALL" else e.get("accounts")
        when = e.get("when") if kind == "CALL" else e.get("cal")
        if pf is not None and (pf["units"] != pf["units"] or (pf["nav"] != pf["nav"])) and not units_nan_reported:
            # the unit bookkeeping broke down (units or unit net value NaN): reported once; nothing that divides by them can be checked afterwards
            units_nan_reported = True
            prev_flow = next((c_ for c_ in reversed(tr.calls) if c_["api"] in ("deposit", "withdraw") and c_["when"] <= when), None)
            ctx.witness("C03.2", {"kind": "units_nan"}, "%s at %s: units %r, unit net value %r (total value %r); last cash flow before: %s"
                        % (kind, when, pf["units"], pf["nav"], pf["total_value"], None if prev_flow is None else (prev_flow["api"], prev_flow["args"], str(prev_flow["when"]))), rp)
        if units_nan_reported:
            continue
        if kind == "CALL":
            if e["api"] in ("deposit", "withdraw") and e["exc"] is None:
                sign = 1 if e["api"] == "deposit" else -1
                flows[e["args"][0]] += sign * e["args"][1]
                b, a = e["pf_before"], e["pf_after"]
                if b["nav"] == b["nav"] and a["nav"] == a["nav"] and not near(b["nav"], a["nav"], 1e-9):
                    ctx.witness("C03.2", {"kind": "flow_changes_nav", "api": e["api"]}, "%s%r at %s: unit net value %r -> %r" % (e["api"], e["args"], when, b["nav"], a["nav"]), rp)
                ctx.stats["c03_flows"] += 1
            elif last_units is not None and pf is not None and pf["units"] != last_units:
                ctx.witness("C03.3", {"kind": "units_changed", "api": e["api"]}, "%s at %s changed units %r -> %r" % (e["api"], when, last_units, pf["units"]), rp)
        if pf is not None and acc is not None and not nan_in(acc):
            n += 1
            s = sum(a["obs"]["total_value"] for a in acc.values())
            if not near(pf["total_value"], s, 1e-9):
                ctx.witness("C03.1", {"kind": "portfolio_value_sum"}, "%s at %s: portfolio total value %r, sum of accounts %r" % (kind, when, pf["total_value"], s), rp)
            if pf["units"] and pf["nav"] == pf["nav"] and not near(pf["nav"] * pf["units"], pf["total_value"], 1e-9):
                ctx.witness("C03.1", {"kind": "nav_times_units"}, "%s at %s: nav x units %r != total value %r" % (kind, when, pf["nav"] * pf["units"], pf["total_value"]), rp)
            if kind != "CALL" and last_units is not None and pf["units"] != last_units:
                ctx.witness("C03.3", {"kind": "units_changed", "api": kind}, "units changed %r -> %r at %s (%s)" % (last_units, pf["units"], when, kind), rp)
            last_units = pf["units"]
        if kind == "POST_SETTLEMENT" and pf is not None and acc is not None and not nan_in(acc):
            # the day's reported return = close nav / previous close nav - 1; compounding reproduces total returns
            if pf["nav"] == pf["nav"] and prev_close_nav:
                want = pf["nav"] / prev_close_nav - 1
                if pf["daily_returns"] == pf["daily_returns"] and not near(pf["daily_returns"], want, 1e-9) and abs(pf["daily_returns"] - want) > 1e-10:
                    ctx.witness("C03.4", {"kind": "daily_return"}, "%s: daily_returns %r, close nav / previous close nav - 1 = %r" % (when.date(), pf["daily_returns"], want), rp)
                compounded *= (1 + pf["daily_returns"]) if pf["daily_returns"] == pf["daily_returns"] else 1.0
                if pf["total_returns"] == pf["total_returns"] and not near(compounded - 1, pf["total_returns"], 1e-8) and abs(compounded - 1 - pf["total_returns"]) > 1e-9:
                    ctx.witness("C03.4", {"kind": "compounding"}, "%s: compounded daily returns %r, total_returns %r" % (when.date(), compounded - 1, pf["total_returns"]), rp)
                    compounded = 1 + pf["total_returns"]
                prev_close_nav = pf["nav"]
            # per-account daily P&L identity
            today8 = B.d8(e["trd"].date())
            nxt8 = ix.next_day8(today8)
            for t, a in acc.items():
                dtv = a["obs"]["total_value"] - day_start_tv[t]
                mf = a["mgmt_fees"] - mfee0[t]
                want = dtv - flows[t] + mf - split_gain[t]
                sg_today = split_gain[t]
                split_gain[t] = 0
                tol_today = split_tol[t]
                split_tol[t] = 0
                # daily_pnl is not in the snapshot's obs: recompute from the account's parts exposed there
                dp = e.get("daily_pnl", {}).get(t)
                if dp is not None and dp == dp:
                    # a delisted holding was paid out at this settlement (also a holding re-created after the delisting by a dividend reinvestment)
                    delist_today = t == "STOCK" and any(s["delisted"] is not None and nxt8 >= B.d8(s["delisted"]) and
                                                        (B.d8(s["delisted"]) > today8 or any(h["id"] == s["id"] and h["long"]["qty"] == 0 for h in a["holdings"])) for s in S["stocks"])
                    liquidated = (not a["holdings"]) and a["total_cash"] == 0
                    # finding F46 (DESIGN.md I.5/I.7): a share conversion whose predecessor still has a dividend payable on or after its last trading day. With
                    # reinvestment on, the code buys shares of the already delisted predecessor on the payable morning, converts them a day late and re-marks the successor's whole
                    # holding at the predecessor's stale last price; the identity fails around those days.
                    conv_pending_div = t == "STOCK" and any(
                        ix.stock.get(p_) is not None and ix.stock[p_]["delisted"] is not None and
                        any(r_[3] >= max([b_[0] // 1000000 for b_ in ix.stock[p_]["bars"].values()] or [0]) for r_ in S["div"].get(p_, []))
                        for p_ in S["trf"])
                    if conv_pending_div and not delist_today and not near(dp, want, 1e-6) and abs(dp - want) > 1e-4:      # (delisting days themselves: finding F10, below)
                        ctx.stats["c03_daily_pnl:conversion_with_pending_dividend(F46)"] += 1
                        ctx.witness("C03.5", {"kind": "daily_pnl_identity", "conversion_with_pending_dividend": True},
                                    "%s %s: reported daily P&L %r, change in total value net of flows %r — in a run where a converted (delisted) stock still had a dividend payable on or after its last trading day"
                                    % (when.date(), t, dp, want), rp)
                        liquidated = True
                    if not near(dp, want, 1e-6) and abs(dp - want) > 1e-4 and not liquidated:
                        # shares reinvested and split the same morning: the half share lost or won by rounding the split is booked as trading P&L of
                        # the reinvested shares (it is part of daily_pnl there), otherwise it is outside daily_pnl — either way bounded by half a share
                        if sg_today and sys_fee[t] > 0 and abs(dp - (want + sg_today - sys_fee[t])) <= 1e-4 + 1e-9 * abs(want):
                            ctx.witness("C03.5", {"kind": "daily_pnl_identity", "reinvestment_fee": True},
                                        "%s %s: reported daily P&L %r counts the reinvestment fee %r that was never taken out of cash (change in value net of flows %r, split rounding %r booked as P&L)"
                                        % (when.date(), t, dp, sys_fee[t], want, sg_today), rp)
                        elif sg_today and abs(dp - (want + sg_today)) <= 1e-4 + 1e-9 * abs(want):
                            ctx.stats["c03_split_rounding_inside_daily_pnl"] += 1
                        elif tol_today and abs(dp - want) <= tol_today + abs(sg_today) + 1e-4:
                            ctx.stats["c03_reinvest_split_rounding_within_one_share"] += 1
                        elif sys_fee[t] > 0 and abs(dp - (want - sys_fee[t])) <= 1e-4 + 1e-9 * abs(want):
                            ctx.witness("C03.5", {"kind": "daily_pnl_identity", "reinvestment_fee": True},
                                        "%s %s: reported daily P&L %r counts the reinvestment fee %r that was never taken out of cash (change in value net of flows %r)" % (when.date(), t, dp, sys_fee[t], want), rp)
                        elif t == "FUTURE" and first_day_init_fut and when.date() == first_day_init_fut:
                            ctx.witness("C03.5", {"kind": "daily_pnl_identity", "init_positions_first_day": True},
                                        "%s %s: configured starting futures positions: reported daily P&L %r, change in total value net of flows %r" % (when.date(), t, dp, want), rp)
                        else:
                            ctx.witness("C03.5", {"kind": "daily_pnl_identity", "stock_delisting_day": bool(delist_today)},
                                        "%s %s: reported daily P&L %r, change in total value net of flows %r" % (when.date(), t, dp, want), rp)
                sys_fee[t] = 0
                day_start_tv[t] = a["obs"]["total_value"]
                mfee0[t] = a["mgmt_fees"]
                flows[t] = 0
    ctx.evaluations += n
    ctx.stats["c03_observations"] += n


# ----------------------------------------------------------------------------------------------------------- C09
def c09_monitor(ctx, tr, ix):
    cfgk = tr.cfg
    rp = replay_of(tr)
    sim = cfgk["sim"]
    risk_cash = (cfgk.get("risk") or {}).get("validate_cash", True)
    reserved = {}       # order id -> (account type, qty, init): reserve booked and not yet released by an announcement
    n = 0
    for kind, e in tr.events:
        if kind == "ORDER_PENDING_NEW":
            o = e["order"]
            acct = "FUTURE" if o["book"] in ix.fut else "STOCK"
            reserved[o["id"]] = [acct, o["qty"], o["init_frozen"] or 0.0, 0]
        elif kind == "TRADE" and e["order"] is not None:
            o = e["order"]
            if o["id"] in reserved:
                reserved[o["id"]][3] = o["filled"]
                if o["filled"] == o["qty"]:
                    del reserved[o["id"]]
        elif kind in ("ORDER_UNSOLICITED_UPDATE", "ORDER_CANCELLATION_PASS"):
            o = e["order"]
            if o["id"] in reserved:
                del reserved[o["id"]]
            else:
                ctx.witness("C09.2", {"kind": "release_announced_twice", "event": kind}, "%s for order %s whose reserve was already released (status %s) at %s" % (kind, o["id"] % 100000, o["status"], e["cal"]), rp)
        acc = e.get("after") if kind == "CALL" else e.get("accounts")
        when = e.get("when") if kind == "CALL" else e.get("cal")
        if acc is None or kind in ("ORDER_PENDING_NEW",):
            continue
        # inside ORDER_PENDING_NEW the user handler runs after the account booked the reserve: handled at next event
        for t, a in acc.items():
            if nan_in(a):
                continue
            n += 1
            want = sum((q - f) / q * init for (at, q, init, f) in reserved.values() if at == t)
            if sim.get("signal"):
                continue
            if not near(a["frozen"], want, 1e-9) and abs(a["frozen"] - want) > 1e-6:
                ctx.witness("C09.2", {"kind": "frozen_not_sum_of_open_reserves", "where": kind}, "%s at %s: %s reserved cash %r, sum over open orders of unfilled share of initial reserve %r (open: %d)"
                            % (kind, when, t, a["frozen"], want, len([1 for v in reserved.values() if v[0] == t])), rp)
                # resynchronise: one defect, one report
                for k in [k for k, v in reserved.items() if v[0] == t]:
                    del reserved[k]
                if abs(a["frozen"]) > 1e-9:
                    reserved[("resync", t, len(tr.events))] = [t, 1, a["frozen"], 0]
            if a["frozen"] < -1e-6:
                ctx.witness("C09.2", {"kind": "frozen_negative"}, "%s at %s: %s reserved cash %r" % (kind, when, t, a["frozen"]), rp)
        # "zero when no order is open" against the BROKER's own book (not against the announcements): at the points where no order is in flight
        if kind in ("POST_OPEN_AUCTION", "POST_BAR", "PRE_AFTER_TRADING", "POST_AFTER_TRADING", "PRE_SETTLEMENT", "POST_SETTLEMENT", "POST_BEFORE_TRADING", "CALL") and not sim.get("signal"):
            open_now = e.get("open_after") if kind == "CALL" else e.get("open")
            if open_now is not None and len(open_now) == 0:
                for t, a in acc.items():
                    if not nan_in(a) and abs(a["frozen"]) > 1e-6:
                        ctx.witness("C09.2", {"kind": "reserved_cash_without_open_order"}, "%s at %s: the broker holds no open order but %s reserved cash is %r" % (kind, when, t, a["frozen"]), rp)
                        for k in [k for k, v in reserved.items() if v[0] == t]:
                            del reserved[k]
                        if abs(a["frozen"]) > 1e-9:
                            reserved[("resync", t, len(tr.events))] = [t, 1, a["frozen"], 0]
    # the estimated fee of a stock order is the published schedule: max(price x quantity x rate x multiplier, minimum) (+ tax for sells of shares)
    cost_cfg = cfgk.get("cost") or {}
    for v in tr.rec.validations:
        if v["validator"] != "cash" or v["inputs"].get("order_cost") is None:
            continue
        o = v["order"]
        s_ = ix.stock.get(o["book"])
        if s_ is None or o["effect"] != "OPEN" or not o["is_buy"] or o["frozen_price"] != o["frozen_price"]:
            continue
        mult_, minc_ = cost_cfg.get("stock_commission_multiplier", 1), cost_cfg.get("cn_stock_min_commission", 5)
        est = max(o["frozen_price"] * o["qty"] * stock_commission_rate() * mult_, minc_)
        if abs(est - v["inputs"]["order_cost"]) > 1e-6 * max(1.0, est):
            ctx.witness("C09.1", {"kind": "estimated_fee_not_schedule"}, "opening order %s x %s @ %r: estimated fee %r, schedule max(value x rate x %s, %s) = %r"
                        % (o["book"], o["qty"], o["frozen_price"], v["inputs"]["order_cost"], mult_, minc_, est), rp)
            break
    # acceptance => covered, at the moment of validation (legs of one call are validated one after the other)
    if risk_cash:
        validated = {}
        mm = (cfgk.get("base_extra") or {}).get("margin_multiplier", 1)
        for v in tr.rec.validations:
            if v["validator"] != "cash" or v["inputs"].get("cash") is None:
                continue
            o = v["order"]
            if o["effect"] != "OPEN" or o["frozen_price"] != o["frozen_price"]:
                continue
            f = ix.fut.get(o["book"])
            occ = o["frozen_price"] * o["qty"] * (f["mult"] * f["info"]["margin_rate"] * mm if f else 1)
            cost = occ + v["inputs"]["order_cost"]
            n += 1
            validated[o["id"]] = v["veto"]
            # the available cash the validator relied on, recomputed from the raw ledger: balance - margin of every holding - reserved
            led = v["inputs"].get("ledger")
            if led is not None and not nan_in(led):
                marg = 0.0
                for h in led["holdings"]:
                    fh = ix.fut.get(h["id"])
                    if fh is not None:
                        for sd in ("long", "short"):
                            marg += h[sd]["qty"] * h[sd]["last"] * fh["mult"] * fh["info"]["margin_rate"] * mm
                avail = led["total_cash"] - marg - led["frozen"]
                if abs(avail - v["inputs"]["cash"]) > 1e-6 * max(1.0, abs(avail)) and not validated.get("_reported"):
                    validated["_reported"] = True
                    ctx.witness("C09.1", {"kind": "available_cash_formula", "account": led["type"]}, "opening order %s x %s @ %r validated against available cash %r; balance %r - margin of the holdings %r - reserved %r = %r"
                                % (o["book"], o["qty"], o["frozen_price"], v["inputs"]["cash"], led["total_cash"], marg, led["frozen"], avail), rp)
            if v["veto"] != (cost > v["inputs"]["cash"]) and abs(cost - v["inputs"]["cash"]) > 1e-6:
                ctx.witness("C09.1", {"kind": "cash_validator_decision", "veto": v["veto"]}, "opening order %s x %s @ %r: estimated cost %r, available cash %r, %s"
                            % (o["book"], o["qty"], o["frozen_price"], cost, v["inputs"]["cash"], "REJECTED" if v["veto"] else "ACCEPTED"), rp)
        for kind, e in tr.events:
            if kind == "ORDER_PENDING_NEW" and e["order"]["effect"] == "OPEN" and not sim.get("signal"):
                oid = e["order"]["id"]
                if validated.get(oid, None) is not False:
                    ctx.witness("C09.1", {"kind": "opening_order_not_validated"}, "opening order %s reached the broker without passing the cash validator (decision: %r)" % (oid % 100000, validated.get(oid)), rp)
    # balance never negative after opening fills under current-bar matching without slippage
    if sim.get("matching_type") == "current_bar" and not sim.get("slippage") and not sim.get("signal") and risk_cash:
        for kind, e in tr.events:
            if kind == "TRADE" and e["order"] is not None and e["trade"]["effect"] == "OPEN":
                t = "FUTURE" if e["trade"]["book"] in ix.fut else "STOCK"
                a = e["accounts"].get(t)
                if a is None or nan_in(a):
                    continue
                bal = a["obs"]["cash"] + a["frozen"]
                if bal < -1e-6:
                    o = e["order"]
                    # is the traded leg marked ABOVE the price the reserve was computed on (the mechanism of finding F16)? If not, the shortfall has another cause
                    leg = "long" if e["trade"]["side"] == "BUY" else "short"
                    hh = next((h for h in a["holdings"] if h["id"] == e["trade"]["book"]), None)
                    fp_ = o.get("frozen_price")
                    above = bool(hh is not None and fp_ is not None and hh[leg]["last"] == hh[leg]["last"] and hh[leg]["last"] > fp_ + 1e-9)
                    ctx.witness("C09.3", {"kind": "balance_negative_after_open_fill", "account": t, "side": e["trade"]["side"], "type": o["type"], "mark_above_frozen_price": above},
                                "%s %s %s x %s @ %r (frozen price %r): available + reserved cash %r" % (t, e["trade"]["side"], e["trade"]["book"], e["trade"]["qty"], e["trade"]["price"], o["frozen_price"], bal), rp)
    ctx.evaluations += n
    ctx.stats["c09_observations"] += n


# ----------------------------------------------------------------------------------------------------------- C10
def c10_monitor(ctx, tr, ix):
    cfgk = tr.cfg
    rp = replay_of(tr)
    # what can be closed (T+1 counter, yesterday's part) is the same after the position's state is written and read back (a restore inside the day)
    for kind, e in tr.events:
        if kind == "POS_ROUNDTRIP":
            ctx.witness("C10.2", {"kind": "closable_changes_across_state_roundtrip", "acct": e["acct"]},
                        "%s %s %s at %s: (quantity, closable, today_closable, old_quantity) is %r on the live position and %r after get_state/set_state into a fresh object"
                        % (e["acct"], e["book"], e["direction"], e["cal"], e["live"], e["restored"]), rp)
            break
    t1 = cfgk["accounts_mod"].get("stock_t1", True)
    # the property is stated "with position validation on": each account type's invariants are checked when its own switch is on
    val_on = {"STOCK": cfgk["accounts_mod"].get("validate_stock_position", True), "FUTURE": cfgk["accounts_mod"].get("validate_future_position", True)}
    n = 0
    start_qty = {}      # (id) -> quantity at start of day (stocks)
    sold_today = collections.Counter()
    opened_today, closed_as_today = collections.Counter(), collections.Counter()
    cur_day = None
    for kind, e, acc, when in iter_obs(tr):
        if when is not None and when.date() != cur_day:
            cur_day = when.date()
            sold_today.clear()
            opened_today.clear()
            closed_as_today.clear()
            start_qty = {}
            if acc and acc.get("STOCK"):
                pass
        if kind == "POST_BEFORE_TRADING" and acc and acc.get("STOCK"):
            start_qty = {h["id"]: h["long"]["qty"] for h in acc["STOCK"]["holdings"]}
            sold_today.clear()
        if kind == "TRADE" and e["trade"]["book"] in ix.fut and e["order"] is not None and val_on["FUTURE"]:
            # futures: what is closed as "today's" within a day never exceeds what was opened that day on that leg
            t = e["trade"]
            leg = (t["book"], "long" if (t["side"] == "BUY") == (t["effect"] == "OPEN") else "short")
            if t["effect"] == "OPEN":
                opened_today[leg] += t["qty"]
            else:
                closed_as_today[leg] += t["close_today"] if t["effect"] == "CLOSE" else t["qty"]
                if closed_as_today[leg] > opened_today[leg] and ix.fut[t["book"]].get("under") not in ("IF",):
                    sigc = {"kind": "closed_today_beyond_opened_today"}
                    if any(c_["api"] == "plan_future_generic_close" and c_["args"][0] == leg[0] and c_["when"] <= when for c_ in tr.calls):
                        sigc.update(account="FUTURE", generic_close_and_close_today_resting=True)       # the scenario of finding F12
                    ctx.witness("C10.3", sigc, "%s: %s %s: %s lots closed as today's so far, %s opened today" % (when, leg[0], leg[1], closed_as_today[leg], opened_today[leg]), rp)
                    closed_as_today[leg] = opened_today[leg]
        if kind == "TRADE":
            t = e["trade"]
            if t["book"] in ix.stock and t["side"] == "SELL" and e["order"] is not None:
                sold_today[t["book"]] += t["qty"]
                s = ix.stock[t["book"]]
                if t1 and val_on["STOCK"] and s.get("tplus", 1) >= 1 and sold_today[t["book"]] > start_qty.get(t["book"], 0):
                    ctx.witness("C10.2", {"kind": "t_plus_one"}, "%s: sold %s of %s today, held %s at the start of the day (T+1)" % (when, sold_today[t["book"]], t["book"], start_qty.get(t["book"], 0)), rp)
        if acc is None:
            continue
        for t, a in acc.items():
            if not val_on.get(t, True):
                continue
            for h in a["holdings"]:
                for side in ("long", "short"):
                    p = h[side]
                    n += 1
                    if p["qty"] < 0:
                        sig = {"kind": "negative_quantity", "account": t}
                        # finding F12: an ordinary CLOSE and a CLOSE_TODAY submitted through the generic submit_order rest together on one leg
                        if t == "FUTURE" and any(c_["api"] == "plan_future_generic_close" and c_["args"][0] == h["id"] and c_["when"] <= when for c_ in tr.calls):
                            sig["generic_close_and_close_today_resting"] = True
                        ctx.witness("C10.1", sig, "%s at %s: %s %s quantity %s" % (kind, when, h["id"], side, p["qty"]), rp)
                    if t == "FUTURE" and (p["old"] < 0 or p["old"] > p["qty"]) and p["qty"] >= 0:
                        sig3 = {"kind": "old_quantity_out_of_range"}
                        if any(c_["api"] == "plan_future_generic_close" and c_["args"][0] == h["id"] and c_["when"] <= when for c_ in tr.calls):
                            sig3.update(account="FUTURE", generic_close_and_close_today_resting=True)      # consequence of F12 (the leg went negative before)
                        ctx.witness("C10.3", sig3, "%s at %s: %s %s old %s qty %s" % (kind, when, h["id"], side, p["old"], p["qty"]), rp)
    # futures: the closing orders one call gets past the validators never add up to more than the leg holds (before the call + what the call itself opened)
    if val_on["FUTURE"]:
        for c in tr.calls:
            if c["exc"] is not None or not c["orders"] or not c.get("before") or "FUTURE" not in c["before"]:
                continue
            if not (str(c["api"]).startswith("plan_future") or c["api"] in ("buy_close", "sell_close", "combo_future_close")):
                continue
            held = {(h["id"], sd): h[sd]["qty"] for h in c["before"]["FUTURE"]["holdings"] for sd in ("long", "short")}
            opened, closing = collections.Counter(), collections.Counter()
            # what any order (this call's or one resting from before) opened on the leg while the call ran
            lo_, hi_ = c.get("ev_range", (0, 0))
            for k_, e_ in tr.events[lo_:hi_]:
                if k_ == "TRADE" and e_["trade"]["book"] in ix.fut and e_["trade"]["effect"] == "OPEN":
                    opened[(e_["trade"]["book"], "long" if e_["trade"]["side"] == "BUY" else "short")] += e_["trade"]["qty"]
            for o in c["orders"]:
                if o["book"] not in ix.fut:
                    continue
                leg = (o["book"], o["direction"].lower())
                if o["effect"] in ("CLOSE", "CLOSE_TODAY"):
                    # what the order has taken or still claims: its fills, plus its unfilled part while it rests (an order cancelled or rejected
                    # unfilled before the next one was validated claims nothing any more)
                    closing[leg] += o["filled"] + ((o["qty"] - o["filled"]) if o["status"] in ("ACTIVE", "PENDING_NEW") else 0)
            for leg, q in closing.items():
                if q > held.get(leg, 0) + opened[leg]:
                    sigq = {"kind": "accepted_closes_exceed_leg", "account": "FUTURE"}
                    if c["api"] == "plan_future_generic_close":
                        sigq["generic_close_and_close_today_resting"] = True      # the scenario of finding F12
                    ctx.witness("C10.3", sigq, "%s%r at %s: the call's closing orders have filled or still claim %s lots of %s %s, the leg held %s before the call and %s lots were opened while it ran"
                                % (c["api"], c["args"], c["when"], q, leg[0], leg[1], held.get(leg, 0), opened[leg]), rp)
    # rejected closes change nothing: position-validator vetoes vs snapshots around the call
    for c in tr.calls:
        if c["exc"] is None and not c["orders"] and c["api"] in ("order_shares", "order_lots", "sell_close", "buy_close") and c["before"] and c["after"]:
            for t in c["before"]:
                if acct_sync.diff_state(dict(c["before"][t]), dict(c["after"][t])):
                    ctx.witness("C10.4", {"kind": "rejected_close_changes_state", "api": c["api"]}, "%s%r at %s created no order but changed the %s account" % (c["api"], c["args"], c["when"], t), rp)
    ctx.evaluations += n
    ctx.stats["c10_observations"] += n


# ----------------------------------------------------------------------------------------------------------- C12
def c12_monitor(ctx, tr, ix):
    """value neutrality of the corporate-action steps, on the recorded Account operations (pre/post observers)"""
    cfgk, S = tr.cfg, tr.S
    rp = replay_of(tr)
    am = cfgk["accounts_mod"]
    n = 0
    # a dividend receivable, once booked, stays on the holding (sold out or not) until the morning of its payable date
    recv = {}
    for kind, e, acc, when in iter_obs(tr):
        a_ = (acc or {}).get("STOCK")
        if a_ is None or when is None or nan_in(a_):
            continue
        now8 = B.d8(when.date())
        cur = {h["id"]: h["long"]["div"] for h in a_["holdings"] if h["long"]["div"]}
        for oid_, (pay8, amt, seen_at) in list(recv.items()):
            if oid_ not in cur:
                liquidated_ = (not a_["holdings"]) and a_["total_cash"] == 0        # forced liquidation wipes the account, receivables included (by design)
                if now8 < pay8 and amt and not liquidated_:
                    # the position has ONE receivable slot (finding F21): another dividend of the stock whose record date falls before this payable date overwrites it —
                    # also when the holding has been sold out in between (the overwrite is then with 0)
                    rows_ = S["div"].get(oid_, [])
                    mine_ = [r_ for r_ in rows_ if r_[3] == pay8]
                    overl_ = any(r_[3] != pay8 and mine_ and mine_[0][1] <= r_[1] < pay8 for r_ in rows_)
                    ctx.witness("C12.2", dict({"kind": "receivable_vanished"}, **({"overlapping_dividend": True} if overl_ else {})), "%s: the dividend receivable %r of %s (payable %s, booked by %s) is gone at %s (%s) before its payable date"
                                % (when, amt, oid_, pay8, seen_at, when, kind), rp)
                del recv[oid_]
        for oid_, d_ in cur.items():
            if oid_ not in recv:
                recv[oid_] = (int(d_[0]), d_[1], str(when))
    nested = []
    for op in tr.rec.ops:
        if op["nested"]:
            nested.append(op)
            continue
        mine_nested, nested = nested, []
        if op["pre"] is None or op["raised"] or nan_in(op["pre"]) or nan_in(op["post"]):
            continue
        pre, post, a = op["pre"], op["post"], op["args"]
        if op["op"] == "_on_settlement":
            # share quantities are whole numbers: a conversion must not leave a fraction of a share
            for h in post["holdings"]:
                q_ = h["long"]["qty"]
                if q_ != int(q_) and all(x["long"]["qty"] == int(x["long"]["qty"]) for x in pre["holdings"]):
                    ctx.witness("C12.5", {"kind": "fractional_quantity_after_conversion"}, "settlement on %s: %s holds %r shares after a share conversion" % (a.get("today"), h["id"], q_), rp)
        reinvested = collections.Counter()
        reinvest_fees = 0.0
        for nop in mine_nested:
            if nop["op"] == "apply_trade" and nop["args"].get("order") is None and nop["args"]["side"] == "BUY":
                reinvested[nop["args"]["id"]] += nop["args"]["qty"]
                reinvest_fees += nop["args"].get("fee", 0.0)       # the purchase of the reinvested shares costs its commission, like any trade (C11)
        if op["op"] == "_on_before_trading":
            today8 = a["today"]
            prev8 = ix.prev_day8(today8)
            # a reinvested dividend buys at the price the holding is marked at this morning: the previous close (less what went ex today) — also for a
            # holding that was sold out in the meantime and only carries the receivable
            for nop in mine_nested:
                if nop["op"] == "apply_trade" and nop["args"].get("order") is None and nop["args"]["side"] == "BUY" and nop["args"]["id"] in ix.stock:
                    pb_ = ix.bar(nop["args"]["id"], prev8)
                    # a share conversion INTO this stock at yesterday's settlement re-marked the whole holding at the predecessor's last price / ratio: this morning's mark is then
                    # the predecessor's datum, not this stock's close (the stream does not make the two agree on every path) — not judged here
                    conv_ = any(t_["successor"] == nop["args"]["id"] and ix.stock.get(p_) is not None and ix.stock[p_]["delisted"] is not None
                                and ix.next_day8(prev8) >= B.d8(ix.stock[p_]["delisted"]) for p_, t_ in S["trf"].items())
                    if conv_:
                        ctx.stats["c12_reinvestment_after_conversion_not_judged"] += 1
                    if pb_ is not None and today8 != prev8 and not conv_:
                        dps_ = sum(r[4] / r[5] for r in S["div"].get(nop["args"]["id"], []) if r[1] == prev8)
                        ctx.stats["c12_reinvestment_prices_checked"] += 1
                        if not near(nop["args"]["price"], pb_[2] - dps_, 1e-9):
                            ctx.witness("C12.3", {"kind": "reinvestment_price"}, "%s: dividend of %s reinvested on %s at %r; the previous close is %r%s"
                                        % (op["acct"], nop["args"]["id"], today8, nop["args"]["price"], pb_[2], (" less %r gone ex today" % dps_) if dps_ else ""), rp)
            allowed = -reinvest_fees       # fee of a reinvestment purchase + split rounding + interest compounding
            actions = []
            for h in pre["holdings"]:
                oid = h["id"]
                if oid not in ix.stock:
                    continue
                q, last = h["long"]["qty"], h["long"]["last"]
                dps = 0.0
                if h["long"]["div"] is not None and any(r[1] == prev8 for r in S["div"].get(oid, [])):
                    # a receivable is pending when the next book closure is processed — also for a holding that was sold out meanwhile
                    # (quantity 0: the new receivable is 0 and replaces the pending one): finding F21
                    actions.append("overlapping_dividend")
                for r in S["div"].get(oid, []):
                    if r[1] == prev8 and q:
                        dps += r[4] / r[5]
                        actions.append("dividend")
                        # receivable booked = record-date quantity x dividend per share
                        ph = next((x for x in post["holdings"] if x["id"] == oid), None)
                        if ph is not None and r[3] != today8:
                            rv = ph["long"]["div"]
                            # (two rows with one book-closure date are merged by the code into one receivable with the first row's payable date)
                            if len([x for x in S["div"].get(oid, []) if x[1] == prev8]) == 1 and (rv is None or not near(rv[1], q * (r[4] / r[5]), 1e-9)):
                                ctx.witness("C12.2", {"kind": "receivable_amount"}, "%s ex-date %s: receivable %r, record-date quantity x dps = %r" % (oid, today8, rv, q * (r[4] / r[5])), rp)
                        if h["long"]["div"] is not None:
                            # a receivable is still pending (payable today or later) when the next one is booked: it is overwritten (F21);
                            # the book-closure handler runs before the payable handler, so "payable today" is lost as well
                            actions.append("overlapping_dividend")
                for ex, ratio in S["split"].get(oid, []):
                    if ex == today8 * 1000000 and (q or reinvested[oid]):      # (a sold-out holding whose receivable is reinvested this morning is split too)
                        actions.append("split")
                        ph = next((x for x in post["holdings"] if x["id"] == oid), None)
                        if ph is not None:
                            q2 = ph["long"]["qty"]
                            q = q + reinvested[oid]          # shares bought by a reinvestment the same morning are split too
                            allowed += (q2 - q * ratio) * ((last - dps) / ratio)
                            if abs(q2 - q * ratio) > 0.5 + 1e-9:
                                ctx.witness("C12.1", {"kind": "split_quantity"}, "%s split %r: quantity %s -> %s" % (oid, ratio, q, q2), rp)
            tv0, tv1 = pre["obs"]["total_value"], post["obs"]["total_value"]
            # liabilities: tv = cash + equity - L - L r/365 ; after compounding L' = L(1+r/365): change = -(L r/365) - (L' - L) r/365 + L r/365 ... recompute exactly
            if pre["liab"] > 0:
                fr = pre["fin_rate"]
                L0 = pre["liab"]
                L1 = L0 * (1 + fr / 365)
                allowed += -(L1 + L1 * fr / 365) + (L0 + L0 * fr / 365)
            n += 1
            if actions:
                ctx.nontrivial("c12", tuple(sorted(set(actions))), bool(am.get("dividend_reinvestment")))
                ctx.stats["c12_corporate_action_steps"] += 1
            if not near(tv1, tv0 + allowed, 1e-9) and abs(tv1 - tv0 - allowed) > 1e-6:
                sig = {"kind": "before_trading_changes_value", "overlapping_dividend": "overlapping_dividend" in actions}
                ctx.witness("C12", sig, "%s before_trading on %s (%s): total value %r -> %r (allowed change %r)" % (op["acct"], today8, ",".join(sorted(set(actions))) or "no action", tv0, tv1, allowed), rp)
        elif op["op"] == "_on_settlement":
            today8 = a["today"]
            nxt8 = ix.next_day8(today8)
            allowed = -(post["mgmt_fees"] - pre["mgmt_fees"])
            actions = []
            forced = (cfgk.get("base_extra") or {}).get("forced_liquidation", True)
            for h in pre["holdings"]:
                oid = h["id"]
                if oid in ix.stock:
                    s = ix.stock[oid]
                    if s["delisted"] is not None and nxt8 >= B.d8(s["delisted"]) and h["long"]["qty"]:
                        if oid in S["trf"]:
                            actions.append("conversion")
                            # the successor is marked at predecessor's last / ratio: an existing successor holding is re-priced (a price move)
                            succ = S["trf"][oid]["successor"]
                            ratio = S["trf"][oid]["share_conversion_ratio"]
                            hs = next((x for x in pre["holdings"] if x["id"] == succ), None)
                            if hs is not None:
                                allowed += hs["long"]["qty"] * (h["long"]["last"] / ratio - hs["long"]["last"])
                        elif am.get("cash_return_by_stock_delisted", True):
                            actions.append("delisting_payout")
                        else:
                            actions.append("forfeit")
                            allowed -= h["long"]["qty"] * h["long"]["last"]
                else:
                    f = ix.fut[oid]
                    bar = ix.bar(oid, today8)
                    for side, sign in (("long", 1), ("short", -1)):
                        p = h[side]
                        if p["qty"] and am.get("futures_settlement_price_type", "close") == "settlement" and bar is not None:
                            allowed += p["qty"] * (float(bar[9]) - p["last"]) * f["mult"] * sign
                        if p["qty"] and f["expire"] is not None and nxt8 > B.d8(f["expire"]):
                            actions.append("expiry")
            tv0, tv1 = pre["obs"]["total_value"], post["obs"]["total_value"]
            liquidated = forced and not post["holdings"] and post["total_cash"] == 0 and tv0 + allowed <= 1e-9
            n += 1
            if actions:
                ctx.nontrivial("c12-st", tuple(sorted(set(actions))))
                ctx.stats["c12_settlement_action_steps"] += 1
            if not liquidated and not near(tv1, tv0 + allowed, 1e-9) and abs(tv1 - tv0 - allowed) > 1e-6:
                ctx.witness("C12", {"kind": "settlement_changes_value", "conversion": "conversion" in actions}, "%s settlement on %s (%s): total value %r -> %r (allowed change %r)"
                            % (op["acct"], today8, ",".join(sorted(set(actions))) or "no action", tv0, tv1, allowed), rp)
    ctx.evaluations += n
    ctx.stats["c12_steps"] += n


# ----------------------------------------------------------------------------------------------------------- C04
LEGAL = {("PENDING_NEW", "ACTIVE"), ("PENDING_NEW", "REJECTED"), ("ACTIVE", "FILLED"), ("ACTIVE", "CANCELLED"), ("ACTIVE", "REJECTED"),
         ("ACTIVE", "PENDING_CANCEL"), ("PENDING_CANCEL", "CANCELLED")}
FINAL = {"FILLED", "REJECTED", "CANCELLED"}


def c04_monitor(ctx, tr, ix):
    for kind_, e_ in tr.events:
        if kind_ == "AFTER_TRADING_CB":
            ctx.stats["after_trading_callbacks_observed"] += 1
            if e_["open"] or e_["live"]:
                ctx.witness("C04.5", {"kind": "open_in_after_trading_callback"}, "the strategy's after_trading() on %s still sees open orders %r (orders not final: %r): the close has not expired them yet"
                            % (e_["cal"].date(), [(i % 100000, st) for i, st in e_["open"][:4]], [(i % 100000, st) for i, st in e_["live"][:4]]), replay_of(tr))
                break
    rp = replay_of(tr)
    status = {}          # order id -> last status seen
    trades = collections.defaultdict(lambda: {"q": 0, "pq": 0.0, "cost": 0.0})
    announced_final = collections.Counter()
    placed_day = {}
    n = 0

    def see(oid, st, where, when):
        prev = status.get(oid)
        if prev is not None and prev != st:
            if prev in FINAL:
                ctx.witness("C04.1", {"kind": "final_status_changed", "from": prev, "to": st}, "order %s: %s -> %s (%s at %s)" % (oid % 100000, prev, st, where, when), rp)
            elif (prev, st) not in LEGAL:
                ctx.witness("C04.1", {"kind": "illegal_transition", "from": prev, "to": st}, "order %s: %s -> %s (%s at %s)" % (oid % 100000, prev, st, where, when), rp)
        status[oid] = st

    for kind, e in tr.events:
        when = e.get("when") if kind == "CALL" else e.get("cal")
        if kind == "ORDER_PENDING_NEW":
            o = e["order"]
            n += 1
            if o["id"] in status:
                ctx.witness("C04.2", {"kind": "pending_new_twice"}, "order %s announced PENDING_NEW twice" % (o["id"] % 100000), rp)
            see(o["id"], "PENDING_NEW", kind, when)
            placed_day[o["id"]] = when.date()
        elif kind == "ORDER_CREATION_PASS":
            see(e["order"]["id"], "ACTIVE", kind, when)
        elif kind == "TRADE" and e["order"] is not None:
            o, t = e["order"], e["trade"]
            n += 1
            r = trades[o["id"]]
            r["q"] += t["qty"]
            r["pq"] += t["price"] * t["qty"]
            r["cost"] += t["commission"] + t["tax"]
            if o["filled"] != r["q"] or o["filled"] > o["qty"]:
                ctx.witness("C04.3", {"kind": "filled_quantity"}, "order %s: filled %s, sum of its trades %s, quantity %s" % (o["id"] % 100000, o["filled"], r["q"], o["qty"]), rp)
            if (o["status"] == "FILLED") != (o["filled"] == o["qty"]) and o["status"] != "CANCELLED":
                ctx.witness("C04.3", {"kind": "filled_status"}, "order %s: status %s with filled %s of %s" % (o["id"] % 100000, o["status"], o["filled"], o["qty"]), rp)
            if o["filled"] and not near(o["avg"] * o["filled"], r["pq"], 1e-9):
                ctx.witness("C04.3", {"kind": "average_price"}, "order %s: avg %r x filled %s != sum price x qty %r" % (o["id"] % 100000, o["avg"], o["filled"], r["pq"]), rp)
            if not near(o["cost"], r["cost"], 1e-9):
                ctx.witness("C04.3", {"kind": "order_cost"}, "order %s: transaction_cost %r, sum of its trades' fees %r" % (o["id"] % 100000, o["cost"], r["cost"]), rp)
            if status.get(o["id"]) in FINAL:
                ctx.witness("C04.1", {"kind": "trade_after_final", "from": status.get(o["id"])}, "order %s traded after it was %s" % (o["id"] % 100000, status.get(o["id"])), rp)
            if o["status"] == "FILLED":
                see(o["id"], "FILLED", kind, when)
        elif kind in ("ORDER_UNSOLICITED_UPDATE", "ORDER_CANCELLATION_PASS"):
            o = e["order"]
            n += 1
            announced_final[o["id"]] += 1
            if announced_final[o["id"]] > 1:
                ctx.witness("C04.2", {"kind": "final_announced_twice", "event": kind}, "order %s: %s published although the order was already announced final (%s)" % (o["id"] % 100000, kind, o["status"]), rp)
            if kind == "ORDER_UNSOLICITED_UPDATE" and o["status"] not in ("REJECTED", "CANCELLED"):
                ctx.witness("C04.2", {"kind": "unsolicited_update_status"}, "UNSOLICITED_UPDATE for order %s in status %s" % (o["id"] % 100000, o["status"]), rp)
            if status.get(o["id"]) == "FILLED":
                ctx.witness("C04.1", {"kind": "final_status_changed", "from": "FILLED", "to": o["status"]}, "order %s was FILLED and is announced %s by %s" % (o["id"] % 100000, o["status"], kind), rp)
            else:
                if kind == "ORDER_CANCELLATION_PASS" and status.get(o["id"]) == "ACTIVE":
                    status[o["id"]] = "PENDING_CANCEL"
                see(o["id"], o["status"], kind, when)
        elif kind == "ORDER_PENDING_CANCEL":
            pass
        elif kind == "CALL":
            n += 1
            # every order handed back by an order API is final or listed among the open orders
            for o in e["orders"]:
                live = tr.orders.get(o["id"])
                if o["status"] not in FINAL and o["id"] not in e["open_after"]:
                    ctx.witness("C04.4", {"kind": "returned_order_dangling", "api": e["api"], "status": o["status"]},
                                "%s%r at %s returned order %s in status %s which is neither final nor among the open orders" % (e["api"], e["args"], when, o["id"] % 100000, o["status"]), rp)
                # an order that is handed back REJECTED / CANCELLED after it had reached the broker was announced so (exactly once: the "at most" half is above)
                if o["status"] in ("REJECTED", "CANCELLED") and o["id"] in status and announced_final[o["id"]] == 0 and not tr.cfg["sim"].get("signal"):
                    ctx.witness("C04.2", {"kind": "final_never_announced", "status": o["status"]},
                                "%s%r at %s: order %s is %s but no ORDER_UNSOLICITED_UPDATE / CANCELLATION_PASS / CREATION_REJECT was published for it" % (e["api"], e["args"], when, o["id"] % 100000, o["status"]), rp)
                    announced_final[o["id"]] += 1
        elif kind == "POST_AFTER_TRADING":
            n += 1
            for oid in e["open"]:
                if placed_day.get(oid) is not None and placed_day[oid] <= when.date():
                    ctx.witness("C04.5", {"kind": "open_after_close"}, "order %s placed on %s is still open after the close of %s" % (oid % 100000, placed_day[oid], when.date()), rp)
    # orders that never got announced final must be FILLED or still legitimately open at the end (none after the last close)
    for oid, o in (tr.orders.items() if tr.exc is None else []):
        st = o.status.name
        if st not in FINAL and oid in status:
            ctx.witness("C04.5", {"kind": "never_final", "status": st}, "order %s ends the run in status %s" % (oid % 100000, st), rp)
        if st in ("REJECTED", "CANCELLED") and oid in status and announced_final[oid] == 0 and not tr.cfg["sim"].get("signal"):
            ctx.witness("C04.2", {"kind": "final_never_announced", "status": st}, "order %s ends the run %s but that was never announced" % (oid % 100000, st), rp)
    ctx.evaluations += n
    ctx.stats["c04_observations"] += n


# ----------------------------------------------------------------------------------------------------------- C05 / C06
FINAL_SEEN = {}


def c0506_monitor(which):
    def mon(ctx, tr, ix):
        import match_sync
        rp = replay_of(tr)
        sim = tr.cfg["sim"]
        if which == "C05" and tr.exc is not None and any(m["raised"] for m in tr.rec.match_calls[-1:]):
            m = tr.rec.match_calls[-1]
            ctx.witness("C05", {"kind": "matcher_raises", "model": sim.get("slippage_model"), "exception": m["raised"]},
                        "the matcher raised %s (%s) while matching a %s %s order on %s at %s under %s: the run ends with an internal error"
                        % (m["raised"], str(tr.exc)[:80], m["pre"]["effect"], "limit" if m["pre"]["is_limit"] else "market", m["pre"]["book"], m["when"][0], sim.get("slippage_model")), rp)
        if sim.get("signal"):
            if which == "C05":
                # signal mode: every order is decided at once at the price of the moment (auction: the open; bar: the close), a limit
                # order at its own limit, plus slippage
                for kind, e in tr.events:
                    if kind != "TRADE" or e["order"] is None:
                        continue
                    t, o = e["trade"], e["order"]
                    when = e["cal"]
                    bar = ix.bar(t["book"], B.d8(e["trd"].date()))
                    if bar is None:
                        ctx.witness("C05.1", {"kind": "fill_without_bar", "signal": True}, "%s %s traded at %s although the bundle has no bar for that day" % (t["book"], t["side"], when), rp)
                        continue
                    auction = when.hour == 0 and when.minute == 0
                    ref = bar[1] if auction else bar[2]
                    is_buy, is_limit = t["side"] == "BUY", o["type"] == "LIMIT"
                    deal = o["price"] if is_limit else ref
                    want = match_sync.slip_price(sim, ix, t["book"], is_buy, is_limit, o["price"], deal, bar[7], bar[8])
                    ctx.stats["signal_trades_checked"] += 1
                    if not near(t["price"], want, 1e-12):
                        ctx.witness("C05.1", {"kind": "trade_price", "auction": auction, "signal": True}, "signal mode, %s %s %s at %s: trade price %r, prescribed %r (the %s %r, slippage %s %s)"
                                    % (t["book"], "limit" if is_limit else "market", t["side"], when, t["price"], want, "limit" if is_limit else ("open" if auction else "close"), deal,
                                       sim.get("slippage_model"), sim.get("slippage")), rp)
            return
        cum = collections.Counter()
        n = 0
        for kind, e in tr.events:
            if kind != "TRADE" or e["order"] is None:
                continue
            t, o = e["trade"], e["order"]
            oid = t["book"]
            when = e["cal"]
            day8 = B.d8(e["trd"].date())
            auction = (when.hour == 0 and when.minute == 0) if True else False
            bar = ix.bar(oid, day8)
            n += 1
            is_buy = t["side"] == "BUY"
            is_limit = o["type"] == "LIMIT"
            if bar is None:
                if which == "C05":
                    ctx.witness("C05.1", {"kind": "fill_without_bar"}, "%s %s traded at %s although the bundle has no bar for that day" % (oid, t["side"], when), rp)
                continue
            deal, lu, ld, vol = match_sync.market_inputs(ix, sim, oid, day8, auction)
            if which == "C05":
                if not (deal == deal and deal > 0):
                    ctx.witness("C05.1", {"kind": "fill_without_valid_price"}, "%s traded at %s, prescribed price %r is not valid" % (oid, when, deal), rp)
                    continue
                want = deal if auction else match_sync.slip_price(sim, ix, oid, is_buy, is_limit, o["price"], deal, lu, ld)
                if not near(t["price"], want, 1e-12):
                    bar_deal = match_sync.market_inputs(ix, sim, oid, day8, False)[0]      # what a BAR order gets (close / vwap)
                    alt = match_sync.slip_price(sim, ix, oid, is_buy, is_limit, o["price"], bar_deal, lu, ld) if bar_deal == bar_deal else float("nan")
                    if auction and near(t["price"], alt, 1e-12):
                        ctx.witness("C05.4", {"kind": "auction_order_filled_at_close"}, "%s %s order placed in the opening auction of %s was filled at 00:00 at %r = the price a BAR order gets from the day's close/vwap (open %r)" % (oid, t["side"], when.date(), t["price"], bar[1]), rp)
                    else:
                        ctx.witness("C05.1", {"kind": "trade_price", "auction": auction, "model": sim.get("slippage_model")}, "%s %s at %s: trade price %r, prescribed %r (reference %r, slippage %s %s)"
                                    % (oid, t["side"], when, t["price"], want, deal, sim.get("slippage_model"), sim.get("slippage")), rp)
                    continue
                # adverse and banded
                if (is_buy and t["price"] < deal - 1e-12) or (not is_buy and t["price"] > deal + 1e-12):
                    ctx.witness("C05.2", {"kind": "slippage_favourable"}, "%s %s: trade price %r is better than the reference %r" % (oid, t["side"], t["price"], deal), rp)
                if (lu == lu and t["price"] > lu + 1e-9) or (ld == ld and t["price"] < ld - 1e-9):
                    ctx.witness("C05.2", {"kind": "outside_limit_band", "model": sim.get("slippage_model")}, "%s %s at %s: trade price %r outside the band [%r, %r] (reference %r, %s x %s)"
                                % (oid, t["side"], when, t["price"], ld, lu, deal, sim.get("slippage_model"), sim.get("slippage")), rp)
                if is_limit:
                    if (is_buy and deal > o["price"] + 1e-12) or (not is_buy and deal < o["price"] - 1e-12):
                        ctx.witness("C05.3", {"kind": "limit_not_reached"}, "%s limit %s %r filled although the reference price is %r" % (oid, t["side"], o["price"], deal), rp)
                    if not sim.get("slippage") and ((is_buy and t["price"] > o["price"] + 1e-12) or (not is_buy and t["price"] < o["price"] - 1e-12)):
                        ctx.witness("C05.3", {"kind": "worse_than_limit"}, "%s limit %s %r traded at %r without slippage" % (oid, t["side"], o["price"], t["price"]), rp)
            else:
                if not (deal == deal and deal > 0):
                    continue
                close_auction_quirk = False
                if sim.get("price_limit", True):
                    if is_buy and lu == lu and deal >= lu:
                        ctx.witness("C06.1", {"kind": "buy_at_limit_up"}, "%s BUY filled at %s while the reference price %r is at limit-up %r" % (oid, when, deal, lu), rp)
                    if (not is_buy) and ld == ld and deal <= ld:
                        ctx.witness("C06.1", {"kind": "sell_at_limit_down"}, "%s SELL filled at %s while the reference price %r is at limit-down %r" % (oid, when, deal, ld), rp)
                if sim.get("inactive_limit", True) and vol == 0:
                    ctx.witness("C06.2", {"kind": "fill_in_zero_volume_bar"}, "%s filled at %s in a bar with zero volume" % (oid, when), rp)
                lot = ix.cfg[oid][5]
                key = (oid, day8, auction)
                cum[key] += t["qty"]
                if sim.get("volume_limit", True) and vol == vol:
                    cap = round(vol * sim.get("volume_percent", 0.25))
                    if cum[key] > cap:
                        ctx.witness("C06.3", {"kind": "bar_cap_exceeded"}, "%s on %s (%s): %s filled in total, cap %s (%s of volume %s)" % (oid, day8, "auction" if auction else "bar", cum[key], cap, sim.get("volume_percent"), vol), rp)
                    elif cum[key] > (cap // lot) * lot:
                        ctx.witness("C06.3", {"kind": "whole_lot_cap_exceeded_after_odd_lot"}, "%s on %s: %s filled in total, whole-lot cap %s (cap %s, lot %s) — an odd-lot liquidation preceded" % (oid, day8, cum[key], (cap // lot) * lot, cap, lot), rp)
                unfilled_before = o["qty"] - (o["filled"] - t["qty"])
                if t["qty"] <= 0 or t["qty"] > unfilled_before:
                    ctx.witness("C06.4", {"kind": "fill_size"}, "%s fill %s with unfilled remainder %s" % (oid, t["qty"], unfilled_before), rp)
                if t["qty"] % lot != 0 and t["qty"] != unfilled_before:
                    ctx.witness("C06.4", {"kind": "odd_lot_fill"}, "%s fill %s is neither whole lots of %s nor the remainder %s" % (oid, t["qty"], lot, unfilled_before), rp)
        if which == "C06":
            # an unfilled limit order RESTS (is listed among the open orders) until filled, cancelled or expired at the close
            placed = {}
            for kind, e in tr.events:
                if kind == "CALL":
                    for o in e["orders"]:
                        placed[o["id"]] = e["when"].date()
                        if o["type"] == "LIMIT" and o["status"] == "ACTIVE" and o["id"] not in e["open_after"]:
                            ctx.witness("C06.5", {"kind": "limit_order_not_resting"}, "%s%r at %s: limit order is ACTIVE (filled %s of %s) but not among the open orders" % (e["api"], e["args"], e["when"], o["filled"], o["qty"]), rp)
                elif kind == "POST_BAR":
                    # a resting limit order must have been offered to the bar's match round: every order still open is in the book
                    pass
                elif kind == "POST_AFTER_TRADING":
                    for oid, o in tr.orders.items():
                        if placed.get(oid) == e["cal"].date() and o.type.name == "LIMIT" and oid not in FINAL_SEEN.get(id(tr), set()):
                            pass
            if tr.exc is None:
                for oid, o in tr.orders.items():
                    if o.type.name == "LIMIT" and o.status.name in ("ACTIVE", "PENDING_NEW") and oid in placed:
                        ctx.witness("C06.5", {"kind": "limit_order_never_expired"}, "limit order %s placed on %s (filled %s of %s) is still %s at the end of the run: it neither filled nor was cancelled nor expired at a close"
                                    % (oid % 100000, placed[oid], o.filled_quantity, o.quantity, o.status.name), rp)
            # a market order never stays partially open: checked on what the order API hands back and at the end of the run
            for c in tr.calls:
                for o in c["orders"]:
                    if o["type"] == "MARKET" and 0 < o["filled"] < o["qty"] and o["status"] != "CANCELLED":
                        ctx.witness("C06.5", {"kind": "market_order_partially_open"}, "%s%r at %s: market order filled %s of %s and is %s" % (c["api"], c["args"], c["when"], o["filled"], o["qty"], o["status"]), rp)
        ctx.evaluations += n
        ctx.stats[which.lower() + "_trades_checked"] += n
    return mon

#!/venv/bin/python
"""./check <Cxx> quick|thorough   |   ./check <Cxx> --replay <path>

Verdict logic (DESIGN.md §6):
  1. regenerate tables from /repo's working tree, regenerate the Float instance, build the property's
     theorem file and the replay driver, audit axioms;
  2. run the property's correspondences (model vs implementation on the same inputs) and evaluate its
     monitors on the IMPLEMENTATION;
  3. a monitor witness not listed in known_findings.json  -> VIOLATION replay=<witness>
     a broken proof/correspondence without witness        -> search with a larger budget, then
                                                              VIOLATION ... no-failing-input-found
"""
import os, sys, re, json, time, subprocess, importlib, fcntl, traceback, hashlib

HERE = os.path.dirname(os.path.abspath(__file__))
sys.path.insert(0, HERE)
import vlib
from vlib import VERIF, LEAN, REPO, W

FORBIDDEN = re.compile(r"\bsorry\b|\badmit\b|^\s*axiom\s|native_decide|bv_decide|implemented_by|\bunsafe\s|maxHeartbeats\s+0\b", re.M)
ALLOWED_AXIOMS = {"propext", "Classical.choice", "Quot.sound"}


def sh(cmd, cwd=None, timeout=3600, env=None):
    p = subprocess.run(cmd, cwd=cwd, shell=isinstance(cmd, str), capture_output=True, text=True, timeout=timeout, env=env)
    return p.returncode, p.stdout + p.stderr


def strip_comments(text):
    text = re.sub(r"/-.*?-/", "", text, flags=re.S)
    return re.sub(r"--.*", "", text)


def theorems_of(prop):
    p = os.path.join(LEAN, "RQ", "Props", prop + ".lean")
    if not os.path.exists(p):
        return [], p
    src = open(p, encoding="utf8").read()
    names = []
    for m in re.finditer(r"^theorem\s+(\S+)", src, re.M):
        names.append((m.group(1), src[:m.start()].count("\n") + 1))
    return names, p


def prepare(prop, log):
    """extract tables, instantiate, build.  Returns dict(build_ok, driver_ok, broken=[theorem names], detail)"""
    res = {"build_ok": True, "driver_ok": True, "broken": [], "detail": ""}
    lock = open(os.path.join(LEAN, ".build.lock"), "w")
    fcntl.flock(lock, fcntl.LOCK_EX)
    try:
        env = dict(os.environ, PYTHONPATH=REPO + os.pathsep + HERE)
        rc, out = sh([sys.executable, os.path.join(HERE, "extract.py")], env=env)
        log.append("extract rc=%d %s" % (rc, out.strip()[-400:]))
        res["extract_ok"] = rc == 0
        res["extract_out"] = out.strip()[-1500:]
        import instantiate
        instantiate.main()
        rc, out = sh(["lake", "build", "drv"], cwd=LEAN)
        if rc != 0:
            res["driver_ok"] = False
            res["detail"] += out[-3000:]
            log.append("driver build failed")
        thms, path = theorems_of(prop)
        rc, out = sh(["lake", "build", "+RQ.Props." + prop], cwd=LEAN)
        if rc != 0:
            res["build_ok"] = False
            res["detail"] += out[-6000:]
            lines = set()
            for m in re.finditer(r"RQ/Props/%s\.lean:(\d+):\d+" % prop, out):
                lines.add(int(m.group(1)))
            for ln in sorted(lines):
                owner = None
                for name, start in thms:
                    if start <= ln:
                        owner = name
                if owner and owner not in res["broken"]:
                    res["broken"].append(owner)
            if not res["broken"]:
                # failure in an imported module (model / generated table / lemma file)
                m = re.findall(r"error: (RQ/[A-Za-z0-9_/]+\.lean):(\d+)", out)
                res["broken"].append("build of RQ.Props.%s (first error in %s)" % (prop, m[0][0] + ":" + m[0][1] if m else "?"))
    finally:
        fcntl.flock(lock, fcntl.LOCK_UN)
    return res


def audit(prop, log, tier="quick"):
    """grep for forbidden constructs + #print axioms on every theorem of the property file; thorough tier: the compiled property module is replayed by `leanchecker`,
    the toolchain's independent re-checker of .olean files."""
    res = {"ok": True, "problems": [], "axioms": {}, "theorems": [], "leanchecker": "not run (quick tier)"}
    for dirpath, _, files in os.walk(os.path.join(LEAN, "RQ")):
        for f in files:
            if f.endswith(".lean"):
                p = os.path.join(dirpath, f)
                txt = strip_comments(open(p, encoding="utf8").read())
                for m in FORBIDDEN.finditer(txt):
                    res["ok"] = False
                    res["problems"].append("%s: forbidden construct %r" % (os.path.relpath(p, LEAN), m.group(0).strip()))
    thms, path = theorems_of(prop)
    res["theorems"] = [t for t, _ in thms]
    if not thms:
        res["ok"] = False
        res["problems"].append("no theorems in RQ/Props/%s.lean" % prop)
        return res
    os.makedirs(os.path.join(LEAN, ".audit"), exist_ok=True)
    ap = os.path.join(LEAN, ".audit", "Audit_%s.lean" % prop)
    with open(ap, "w") as fh:
        fh.write("import RQ.Props.%s\n" % prop)
        for t, _ in thms:
            fh.write("#print axioms RQ.Props.%s.%s\n" % (prop, t))
    rc, out = sh(["lake", "env", "lean", ap], cwd=LEAN)
    if rc != 0:
        res["ok"] = False
        res["problems"].append("axiom audit failed to run: " + out[-500:])
        return res
    for m in re.finditer(r"'RQ\.Props\.%s\.(\S+?)' (does not depend on any axioms|depends on axioms: \[([^\]]*)\])" % prop, out):
        axs = [a.strip() for a in (m.group(3) or "").replace("\n", " ").split(",") if a.strip()]
        res["axioms"][m.group(1)] = axs
        bad = [a for a in axs if a not in ALLOWED_AXIOMS]
        if bad:
            res["ok"] = False
            res["problems"].append("theorem %s uses axioms %s" % (m.group(1), bad))
    missing = [t for t, _ in thms if t not in res["axioms"]]
    if missing:
        res["ok"] = False
        res["problems"].append("no axiom report for %s" % missing)
    if tier == "thorough":
        rc, out = sh(["lake", "env", "leanchecker", "RQ.Props.%s" % prop], cwd=LEAN)
        res["leanchecker"] = "RQ.Props.%s replayed: %s" % (prop, "accepted" if rc == 0 else "REJECTED")
        if rc != 0:
            res["ok"] = False
            res["problems"].append("leanchecker rejects RQ.Props.%s: %s" % (prop, out[-400:]))
    return res


def write_replay(prop, kind, payload):
    d = os.path.join(VERIF, "replays")
    os.makedirs(d, exist_ok=True)
    body = json.dumps({"property": prop, "kind": kind, "payload": payload}, indent=1, default=str, sort_keys=True)
    name = "%s_%s_%s.json" % (prop, kind, hashlib.md5(body.encode()).hexdigest()[:10])
    p = os.path.join(d, name)
    open(p, "w").write(body)
    return p


def main(argv):
    if len(argv) < 2:
        W(__doc__ + "\n")
        return 2
    prop = argv[0]
    t0 = time.time()
    seed = int(os.environ.get("VERIF_SEED", "0") or 0)
    replay_path = None
    if argv[1] == "--replay":
        replay_path = argv[2]
        tier = "quick"
    else:
        tier = argv[1]
    if tier not in ("quick", "thorough"):
        tier = os.environ.get("VERIF_TIER", "quick")
    log = []
    mod = importlib.import_module("props." + prop.lower())
    prep = prepare(prop, log)
    aud = audit(prop, log, tier) if prep["build_ok"] else {"ok": False, "problems": ["not run: build failed"], "axioms": {}, "theorems": [t for t, _ in theorems_of(prop)[0]]}

    if replay_path:
        data = json.load(open(replay_path))
        ctx = vlib.Ctx(prop, tier, seed)
        ctx.driver_ok = prep["driver_ok"]
        rp_ = ((data.get("payload") or {}).get("replay") or {}) if isinstance(data, dict) else {}
        if rp_.get("run_seed") is not None and rp_.get("run_index") is not None:
            ctx.replay_run = (rp_["run_index"], rp_["run_seed"])       # stream checks re-run exactly the recorded scenario
        out = mod.replay(ctx, data)
        W("REPLAY %s: %s\n" % (replay_path, out))
        for w in ctx.witnesses:
            W("  witness %s: %s\n" % (w.clause, w.what))
        return 1 if ctx.witnesses else 0

    ctx = vlib.Ctx(prop, tier, seed)
    ctx.driver_ok = prep["driver_ok"]
    ctx.prep = prep
    infra_error = None
    try:
        mod.run(ctx)
    except Exception as ex:
        infra_error = traceback.format_exc()
    proof_broken = (not prep["build_ok"]) or (not aud["ok"])
    corr_broken = [c for c in ctx.corrs if c.n_mismatch] or (not prep["driver_ok"])
    searched = False
    if (proof_broken or corr_broken) and not ctx.witnesses and infra_error is None:
        # search for a failing input with a larger budget and fresh randomness
        searched = True
        sctx = vlib.Ctx(prop, tier, seed + 7919)
        sctx.driver_ok = prep["driver_ok"]
        sctx.prep = prep
        sctx.search_mode = True
        sctx.budget_scale = 8.0 if tier == "quick" else 3.0
        try:
            mod.run(sctx)
        except Exception:
            log.append("search run failed: " + traceback.format_exc()[-800:])
        ctx.witnesses.extend(sctx.witnesses)
        ctx.stats["search_evaluations"] = sctx.evaluations

    kf = vlib.load_known_findings()
    known_lines, new_witnesses = [], []
    seen_known = set()
    for w in ctx.witnesses:
        f = vlib.match_finding(w, kf.get("findings", []), prop)
        if f is not None:
            if f["id"] not in seen_known:
                seen_known.add(f["id"])
                known_lines.append("KNOWN-FINDING: property=%s %s [%s] %s" % (prop, f["id"], w.clause, f["what"]))
        else:
            new_witnesses.append(w)

    violations = []
    if new_witnesses:
        # one VIOLATION line per distinct clause/signature, first witness of each
        seen = set()
        for w in new_witnesses:
            key = (w.clause, json.dumps(w.signature, sort_keys=True, default=str))
            if key in seen:
                continue
            seen.add(key)
            path = write_replay(prop, "witness", w.as_dict())
            violations.append("VIOLATION property=%s replay=%s" % (prop, path))
            W("  failing input (%s): %s\n" % (w.clause, w.what))
            if len(violations) >= 5:
                break
    elif proof_broken or corr_broken:
        payload = {
            "proof_obligations_broken": prep["broken"] + aud["problems"] if proof_broken else [],
            "correspondences_broken": [c.as_dict() for c in ctx.corrs if c.n_mismatch] + ([] if prep["driver_ok"] else ["driver build failed"]),
            "build_detail": prep["detail"][-3000:],
            "searched": searched,
            "search_evaluations": ctx.stats.get("search_evaluations", 0),
        }
        path = write_replay(prop, "unproved", payload)
        violations.append("VIOLATION property=%s replay=%s no-failing-input-found" % (prop, path))
        for b in payload["proof_obligations_broken"]:
            W("  proof obligation no longer checks: %s\n" % b)
        for c in payload["correspondences_broken"]:
            W("  correspondence no longer checks: %s\n" % (c if isinstance(c, str) else "%s (%d of %d cases differ; first: %s)" % (c["name"], c["mismatches"], c["cases"], json.dumps(c["first_mismatches"][:1], default=str)[:600])))

    # ---- evidence
    thm_n = len(aud["theorems"])
    thm_ok = 0 if proof_broken and not prep["build_ok"] else len([t for t in aud["theorems"] if t in aud["axioms"] and set(aud["axioms"][t]) <= ALLOWED_AXIOMS])
    corr_n = len([c for c in ctx.corrs if c.cases > 0 or c.n_mismatch])     # a correspondence that met no case this run is not an obligation of this run
    corr_ok = len([c for c in ctx.corrs if not c.n_mismatch and c.cases > 0])
    samples = list(ctx.samples)
    for c in ctx.corrs:
        samples.extend({"correspondence": c.name, "case": s} for s in c.samples[:1])
    if not samples:
        samples = [{"theorems": aud["theorems"][:5]}]
    evidence = {
        "property_id": prop, "tier": tier, "seed": seed, "level": getattr(mod, "LEVEL", "proof"),
        "coverage": {
            "obligations": thm_n + corr_n,
            "discharged": thm_ok + corr_ok,
            "theorems": aud["theorems"],
            "theorem_axioms": aud["axioms"],
            "correspondences": [c.as_dict() for c in ctx.corrs],
            "checker_cmd": "cd /verif/lean && lake build +RQ.Props.%s && lake env lean .audit/Audit_%s.lean   (then: ./check %s %s)" % (prop, prop, prop, tier),
            "trusted_base": [
                "Lean 4 kernel (lake build of RQ.Props.%s); axioms used: %s; leanchecker: %s" % (prop, sorted({a for v in aud["axioms"].values() for a in v}), aud.get("leanchecker", "not run")),
                "harness/extract.py (tables regenerated from /repo on this run) and harness/instantiate.py (textual Rat->Float copy of the model)",
                "correspondence harness: model (Float instance, compiled driver) vs the real rqalpha code on the same inputs",
            ] + list(getattr(mod, "TRUSTED", [])) + (
                ["free-running World correspondence (harness/world_sync.py): the run's inputs are recorded by harness wrappers around Environment.can_submit_order, the broker's "
                 "submit/cancel/before_trading/on_bar/after_trading, Portfolio.deposit_withdraw/_pre_before_trading and Account._on_settlement/finance_repay; every day's market table "
                 "is derived from the generated bundle, never from rqalpha's look-ups; the model (RQ/Model/World*.lean, Float instance) runs freely from the starting portfolio; "
                 "World-level theorems are in RQ/Lemmas/World*.lean (sub-agent proofs, kernel-checked, audited through the corollaries of the property file)"]
                if any(c.name.startswith("World") for c in ctx.corrs) else []),
            "evaluations": ctx.evaluations,
            "distinct_nontrivial": len(ctx.signatures),
            "rule": getattr(mod, "RULE", ""),
            "samples": samples[:8],
            "stats": dict(ctx.stats),
            "extract": prep.get("extract_out", "")[-600:],
            "known_findings_matched": sorted(seen_known),
            "notes": ctx.notes,
        },
        "assumptions": list(getattr(mod, "ASSUMPTIONS", [])),
        "wall_s": round(time.time() - t0, 2),
        "violations": len(violations),
    }
    os.makedirs(os.path.join(VERIF, "evidence"), exist_ok=True)
    json.dump(evidence, open(os.path.join(VERIF, "evidence", prop + ".json"), "w"), indent=1, default=str)

    for l in known_lines:
        W(l + "\n")
    if infra_error:
        W("INFRASTRUCTURE ERROR in %s check:\n%s\n" % (prop, infra_error))
        return 2
    for v in violations:
        W(v + "\n")
    W("%s %s: theorems %d/%d, correspondences %d/%d (%d cases), evaluations %d, distinct non-trivial %d, known findings %d, %.1fs\n" % (
        prop, tier, thm_ok, thm_n, corr_ok, corr_n, sum(c.cases for c in ctx.corrs), ctx.evaluations, len(ctx.signatures), len(seen_known), time.time() - t0))
    return 1 if violations else 0


if __name__ == "__main__":
    sys.exit(main(sys.argv[1:]))

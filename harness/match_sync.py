"""Step-sync correspondence of the bar matcher: every DefaultBarMatcher.match() call of a real run is replayed on the Lean
model with the market inputs taken from the scenario's bundle tables (the price the configured rule prescribes, limits, volume)."""
import datetime
import vlib, bundle as B, acct_sync
from vlib import f2b, b2f, of2b


def tick_size(ix, oid):
    s = ix.stock.get(oid)
    if s is not None:
        return 0.01 if s["type"] == "CS" else 0.001
    return ix.fut[oid]["info"]["tick_size"]


def tenthousandths(x):
    """the price as the code writes it before rounding to the tick: "{:.4f}" (glue: Python's float formatting)"""
    return int("{:.4f}".format(x).replace(".", ""))


def round_price_spec(lim, tick):
    """LimitOrder.round_price as the model `roundPrice` has it (ten-thousandths, down to the tick grid), back as the float the code would produce"""
    import decimal
    l, t = tenthousandths(lim), tenthousandths(tick)
    r = l if t == 0 else (l // t) * t
    return float(decimal.Decimal(r) / decimal.Decimal(10000))


def carried_limit(ix, oid, lim):
    """the limit price an order created with limit `lim` carries: rounded down to the tick when base.round_price is on"""
    if lim is None or lim != lim or not (ix.cfgk.get("base_extra") or {}).get("round_price"):
        return lim
    return round_price_spec(lim, tick_size(ix, oid))


def market_inputs(ix, sim, oid, day8, auction):
    """(deal, limit_up, limit_down, volume) as the bundle prescribes; None = missing"""
    bar = ix.bar(oid, day8)
    if bar is None:
        return None, None, None, None
    lu, ld, vol = bar[7], bar[8], bar[5]
    if auction:
        deal = bar[1]
    elif sim.get("matching_type", "current_bar") == "vwap":
        mult = ix.fut[oid]["mult"] if oid in ix.fut else 1
        deal = (bar[6] / bar[5] / mult) if bar[5] != 0 else float("nan")
    else:
        deal = bar[2]
    return deal, lu, ld, vol


def slip_price(sim, ix, oid, is_buy, is_limit, limit_price, deal, lu, ld):
    model = sim.get("slippage_model", "PriceRatioSlippage")
    rate = sim.get("slippage", 0)
    sign = 1 if is_buy else -1
    if model == "PriceRatioSlippage":
        p = deal + deal * rate * sign
        if lu is not None and lu == lu and lu > 0:
            p = min(p, lu)
        if ld is not None and ld == ld and ld > 0:
            p = max(p, ld)
        return p
    if model == "TickSizeSlippage":
        p = deal + tick_size(ix, oid) * rate * sign
        if lu is not None and lu == lu and lu > 0:
            p = min(p, lu)
        if ld is not None and ld == ld and ld > 0:
            p = max(p, ld)
        return p
    return limit_price if is_limit else deal


def ord_toks(o):
    return [str(int(o["is_buy"])), str(int(o["is_limit"])), f2b(o["price"]), o["effect"], str(int(o["qty"])), str(int(o["filled"])), o["status"], f2b(o["avg"]), f2b(o["cost"]),
            f2b(o["frozen_price"]), f2b(o["init_frozen"])]


def run_sync(ctx, corr, tr, ix):
    sim = tr.cfg["sim"]
    lines, meta = [], []
    for m in tr.rec.match_calls:
        ctx.evaluations += 1
        o = m["pre"]
        if m.get("had_inner"):
            # the strategy's TRADE handler sent an order from inside this call: its post-state carries the inner calls' effects
            # (the inner calls themselves are compared, from their own pre-states)
            ctx.stats["match_skipped_reentrant"] += 1
            continue
        if o["book"] not in ix.ids or o["effect"] not in ("OPEN", "CLOSE", "CLOSE_TODAY") or o["frozen_price"] != o["frozen_price"]:
            ctx.stats["match_skipped"] += 1
            continue
        day8 = B.d8(m["when"][1].date())
        deal, lu, ld, vol = market_inputs(ix, sim, o["book"], day8, m["auction"])
        s = ix.stock.get(o["book"])
        listed_today = bool(s is not None and s["listed"] == m["when"][1].date())
        model = sim.get("slippage_model", "PriceRatioSlippage")
        kind = {"PriceRatioSlippage": "ratio", "TickSizeSlippage": "tick"}.get(model, "limit")
        tr0 = m["trades"][0] if m["trades"] else None
        st = m.get("stamped") or {}
        fee = (tr0["commission"] + tr0["tax"]) if tr0 else (st.get("commission", 0.0) + st.get("tax", 0.0))      # fee stamped on a trade that was then refused for cash
        ct = tr0["close_today"] if tr0 else st.get("close_today", 0)
        if m.get("signal"):
            bar = ix.bar(o["book"], day8)
            last = None if bar is None else (bar[1] if m["auction"] else bar[2])
            lines.append(" ".join(["SIGMATCH", str(int(sim.get("price_limit", True))), kind, f2b(sim.get("slippage", 0)), f2b(tick_size(ix, o["book"]))] + ix.cfg_toks(o["book"]) + ord_toks(o) +
                                  [of2b(last), of2b(lu), of2b(ld), f2b(fee), str(int(ct))]))
            meta.append(m)
            ctx.stats["signal_match_calls"] += 1
            continue
        lines.append(" ".join(["MATCH", str(int(sim.get("price_limit", True))), str(int(sim.get("inactive_limit", True))), str(int(sim.get("volume_limit", True))),
                               f2b(sim.get("volume_percent", 0.25)), kind, f2b(sim.get("slippage", 0)), f2b(tick_size(ix, o["book"]))] + ix.cfg_toks(o["book"]) + ord_toks(o) +
                              [of2b(deal), of2b(lu), of2b(ld), of2b(vol), str(int(listed_today)), str(int(m["auction"])), str(int(m["turnover"])), f2b(m["cash"] + o["init_frozen"]),
                               f2b(fee), str(int(ct)),
                               # (repaired F43) daily frequency, clock still at 00:00: a non-auction order is not matched at all
                               str(int(tr.cfg.get("frequency", "1d") == "1d" and m["when"][0].hour == 0 and m["when"][0].minute == 0))]))
        meta.append(m)
    if not lines or not ctx.driver_ok:
        return
    reps = vlib.ask_driver(lines)
    for m, rep in zip(meta, reps):
        out, rest = rep.split("|")
        out = out.split()
        rest = rest.split()
        pre, post = m["pre"], m["post"]
        # implementation outcome
        if m["raised"]:
            impl = ["RAISES"]
        elif m["trades"]:
            t = m["trades"][0]
            impl = ["FILL", str(int(t["qty"])), f2b(t["price"]), str(int(t["close_today"])), "1" if post["status"] == "CANCELLED" else "0"]
        elif post["status"] == pre["status"]:
            impl = ["REST"]
        else:
            impl = [post["status"]]
        ok = out == impl
        if ok and out[0] != "RAISES":
            ok = rest[0] == post["status"] and int(rest[1]) == int(post["filled"]) and acct_sync.feq(b2f(rest[2]), post["avg"], ctx.stats) and acct_sync.feq(b2f(rest[3]), post["cost"], ctx.stats) \
                and int(rest[4]) == int(m["turnover_after"])
        if out[0] == "FILL":
            ctx.nontrivial("match", m["account"], pre["is_limit"], pre["effect"], m["auction"], out[4], int(out[1]) < pre["qty"] - pre["filled"])
        else:
            ctx.nontrivial("match", m["account"], pre["is_limit"], pre["effect"], m["auction"], out[0])
        ctx.stats["match_" + out[0]] += 1
        corr.add(ok, {"order": pre, "auction": m["auction"], "turnover": m["turnover"], "when": str(m["when"][0]), "impl": impl + [post["status"], post["filled"]],
                      "model": out + rest})

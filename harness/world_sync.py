"""Free-run correspondence of the composed model (`RQ/Model/World.lean`): a whole real run is handed to the Lean driver as ONE request —
configuration, the portfolio the run starts from, and then only INPUTS: the day events, the market tables of each day (taken from the
generated bundle, not from rqalpha's look-ups) and the strategy's calls after order sizing (created orders, cancels, deposits,
financing).  The model runs freely from there: validators, reserved cash, matching, fees, trades, account bookkeeping, corporate
actions and settlement are all its own.  After every input the model's accounts, portfolio units and open-order list are compared with
what the implementation showed at the same point; at the end every order's final state and the sequence of published order events."""
import datetime, re
import vlib, bundle as B, acct_sync, match_sync
from vlib import f2b, b2f, of2b

PIT_CHANGE = 20230828
EFFECTS = ("OPEN", "CLOSE", "CLOSE_TODAY")


def market_facts(ix, oid, day):
    s, f = ix.stock.get(oid), ix.fut.get(oid)
    d8v = B.d8(day)
    if s is not None:
        listed = (s["listed"] <= day) and not (s["delisted"] is not None and day >= s["delisted"])
        return listed, d8v in ix.S["sus"].get(oid, [])
    return (not (f["expire"] is not None and day > f["expire"])), False


def supported(tr):
    """None if the run is inside the world model's scope, else the reason it is not"""
    S, cfgk = tr.S, tr.cfg
    sim = cfgk["sim"]
    minute = cfgk.get("frequency", "1d") == "1m"
    if sim.get("matching_type", "current_bar") not in (("current_bar", "vwap", "next_bar") if minute else ("current_bar", "vwap")):
        return "matching_type"
    if any(c.get("phase") == "BT" for c in tr.calls):
        return "strategy_calls_before_the_open"      # calls from a handler of the before-trading events (the world's day starts its calls with the auction)
    if any(c.get("from_trade_handler") for c in tr.calls):
        return "strategy_acts_inside_trade_handler"        # the strategy sent or cancelled an order from inside a TRADE handler: the matching pass was re-entered
    if not tr.rec.inputs or tr.rec.inputs[0]["k"] != "P":
        return "no_inputs"
    return None


def cfg_toks(ix, cfgk):
    S = ix.S
    sim, am, cost, risk = cfgk["sim"], cfgk["accounts_mod"], cfgk.get("cost") or {}, cfgk.get("risk") or {}
    t = [str(len(ix.ids))]
    for oid, n in ix.ids.items():
        s, f = ix.stock.get(oid), ix.fut.get(oid)
        t += [str(n)] + ix.cfg_toks(oid)
        if s is not None:
            t += [str(int(s["type"] == "CS")), {"CS": "0", "ETF": "1", "LOF": "2"}.get(s["type"], "3"), f2b(match_sync.tick_size(ix, oid)),
                  "0", f2b(0.0), f2b(0.0), f2b(0.0), f2b(1.0), f2b(1.0)]
        else:
            info = f["info"]
            t += ["0", "9", f2b(match_sync.tick_size(ix, oid)), str(int(info["commission_type"] == "by_money")), f2b(info["open_commission_ratio"]),
                  f2b(info["close_commission_ratio"]), f2b(info["close_commission_today_ratio"]), f2b(f["mult"]), f2b(cost.get("futures_commission_multiplier", 1))]
    model = sim.get("slippage_model", "PriceRatioSlippage")
    t += [str(int(sim.get("price_limit", True))), str(int(sim.get("inactive_limit", True))), str(int(sim.get("volume_limit", True))), f2b(sim.get("volume_percent", 0.25)),
          {"PriceRatioSlippage": "0", "TickSizeSlippage": "1"}.get(model, "2"), f2b(sim.get("slippage", 0))]
    t += [f2b(0.0008), f2b(cost.get("stock_commission_multiplier", 1)), f2b(cost.get("cn_stock_min_commission", 5)), f2b(cost.get("tax_multiplier", 1))]
    common = [risk.get("validate_price", True), risk.get("validate_is_trading", True), risk.get("validate_cash", True), risk.get("validate_self_trade", False)]
    t += [str(int(x)) for x in [am.get("validate_stock_position", True)] + common]
    t += [str(int(x)) for x in [am.get("validate_future_position", True)] + common]
    t += [str(int(am.get("stock_t1", True))), str(int(bool(am.get("dividend_reinvestment", False)))), str(int(bool((cfgk.get("base_extra") or {}).get("forced_liquidation", True)))),
          str(int(sim.get("matching_type", "current_bar") in ("current_bar", "vwap"))), str(int(cfgk.get("frequency", "1d") == "1d"))]
    return t


def day_toks(ix, cfgk, today8):
    """the market table of one trading day, per instrument, from the scenario"""
    S = ix.S
    sim, am, cost = cfgk["sim"], cfgk["accounts_mod"], cfgk.get("cost") or {}
    day = datetime.date(today8 // 10000, today8 // 100 % 100, today8 % 100)
    tax = 0.0005
    if cost.get("pit_tax") and today8 < PIT_CHANGE:
        tax = 0.001
    prev8, nxt8 = ix.prev_day8(today8), ix.next_day8(today8)
    t = [str(today8), f2b(tax), str(len(ix.ids))]
    for oid, n in ix.ids.items():
        s, f = ix.stock.get(oid), ix.fut.get(oid)
        bar = ix.bar(oid, today8)
        deal_a, lu, ld, vol = match_sync.market_inputs(ix, sim, oid, today8, True)
        deal_b = match_sync.market_inputs(ix, sim, oid, today8, False)[0]
        listed, susp = market_facts(ix, oid, day)
        listed_today = bool(s is not None and s["listed"] == day)
        t += [str(n), of2b(None if bar is None else bar[1]), of2b(None if bar is None else bar[2]), of2b(deal_a), of2b(deal_b), of2b(lu), of2b(ld), of2b(vol),
              str(int(listed_today)), str(int(listed)), str(int(susp))]
        # corporate actions of this morning (stocks)
        has_div, dps, pay, has_split, ratio = 0, 0.0, 0, 0, 0.0
        if s is not None:
            import numpy as np
            drows = [r for r in S["div"].get(oid, []) if r[1] == prev8]
            if drows:
                v = 0
                for r in drows:
                    v = v + np.float64(r[4]) / np.uint32(r[5])
                has_div, dps, pay = 1, float(v), drows[0][3]
            for ex, ra in S["split"].get(oid, []):
                if ex == today8 * 1000000:
                    has_split, ratio = 1, float(ra)
        t += [str(has_div), f2b(dps), str(pay), str(has_split), f2b(ratio)]
        # settlement of this evening
        dk, hs, sp, ex = 0, 0, 0.0, 0
        if s is not None:
            if s["delisted"] is not None and nxt8 >= B.d8(s["delisted"]):
                dk = 1 if am.get("cash_return_by_stock_delisted", True) else 2
        else:
            if am.get("futures_settlement_price_type", "close") == "settlement":
                hs, sp = 1, (float(bar[9]) if bar is not None else float("nan"))
            ex = 1 if (f["expire"] is not None and nxt8 > B.d8(f["expire"])) else 0
        t += [str(dk), str(hs), f2b(sp), str(ex)]
    return t


def minute_rows(ix, cfgk, dt):
    """the minute bar of every instrument at `dt`, from the table the harness's minute data source serves"""
    import minute_source
    import numpy as np
    from rqalpha.utils.datetime_func import convert_dt_to_int
    mt = cfgk["sim"].get("matching_type", "current_bar")
    key = np.uint64(convert_dt_to_int(dt))
    rows = []
    for oid, n in ix.ids.items():
        bars = minute_source.MIN.get(oid)
        if bars is None or len(bars) == 0:
            continue
        pos = bars["datetime"].searchsorted(key)
        if pos >= len(bars) or bars["datetime"][pos] != key:
            rows.append([str(n), "-", "-", "-", "-", "-"])
            continue
        b = bars[pos]
        if mt == "next_bar":
            deal = float(b["open"])
        elif mt == "vwap":
            deal = float(b["total_turnover"]) / float(b["volume"]) if float(b["volume"]) != 0 else float("nan")
        else:
            deal = float(b["close"])
        rows.append([str(n), of2b(float(b["close"])), of2b(deal), of2b(float(b["limit_up"])), of2b(float(b["limit_down"])), of2b(float(b["volume"]))])
    return rows


STOCK_APIS = ("order_shares", "order_lots", "order_value", "order_percent", "order_target_value", "order_target_percent", "order", "order_to")
FUT_APIS = ("buy_open", "sell_open", "buy_close", "sell_close")


def api_calls(tr, ix):
    """the strategy's calls that the API-level world sizes itself: start index in the input list -> call"""
    out = {}
    inputs = tr.rec.inputs
    for c in tr.calls:
        if "in_range" not in c or c.get("exc") is not None or c.get("from_trade_handler"):
            continue
        a, b = c["in_range"]
        api, args = c["api"], c["args"]
        if api in STOCK_APIS and len(args) == 3 and args[0] in ix.stock:
            pass
        elif api in FUT_APIS and len(args) == 4 and args[0] in ix.fut:
            pass
        else:
            continue
        rng = inputs[a:b]
        if any(it["k"] != "O" or it.get("depth") or (it.get("passed") and not it.get("submitted")) for it in rng):
            continue
        if any(it["order"]["book"] != args[0] for it in rng):
            continue
        if args[1] != args[1] or (args[2] is not None and args[2] != args[2]):
            continue
        if api in STOCK_APIS and args[2] is not None and match_sync.carried_limit(ix, args[0], args[2]) != args[2]:
            # base.round_price moved the limit: the API sizes the order at the caller's limit and the order carries the rounded one — two prices where the
            # API-level model has one; such a call enters the world as its submissions (base level)
            continue
        out.setdefault(a, []).append(c)
    return out


def api_toks(ix, c, ids):
    api, args = c["api"], c["args"]
    lim = match_sync.carried_limit(ix, args[0], args[2])       # base.round_price: the order carries the limit rounded down to the tick (model: roundPrice)
    tail = [str(int(lim is not None)), f2b(lim if lim is not None else 0.0), str(len(ids))] + [str(i) for i in ids]
    if api in STOCK_APIS:
        return ["K", api, str(ix.ids[args[0]]), f2b(float(args[1]))] + tail
    eff = "OPEN" if api.endswith("open") else ("CLOSE_TODAY" if args[3] else "CLOSE")
    return ["KF", str(ix.ids[args[0]]), f2b(float(args[1])), str(int(api.startswith("buy"))), eff] + tail


def build_request(tr, ix, api_level=False):
    """-> (line, the input items that went in) or (None, reason).  With `api_level` the calls of the order-sizing APIs are handed over as
    the calls themselves (the model sizes them on its own state); otherwise as the orders they created."""
    cfgk = tr.cfg
    inputs = tr.rec.inputs
    calls_at = api_calls(tr, ix) if (api_level and not cfgk["sim"].get("signal")) else {}
    first = inputs[0]
    accts = first["pf_pre"]["accounts"]
    if any(acct_sync.nan_in(a) for _, a in accts):
        return None, "nan_in_start_state"
    types = [t for t, _ in accts]
    signal = bool(cfgk["sim"].get("signal"))
    t = [("WRUNS" if signal else "WRUN2" if api_level else "WRUN")] + cfg_toks(ix, cfgk) + [str(len(accts))]
    for _, a in accts:
        if any(h["id"] not in ix.ids for h in a["holdings"]):
            return None, "unknown_instrument_in_start_state"
        t += acct_sync.ser_acct(ix, a)
    t += [f2b(first["pf_pre"]["units"]), f2b(first["pf_pre"]["static"]),
          str(types.index("STOCK")) if "STOCK" in types else "-", str(types.index("FUTURE")) if "FUTURE" in types else "-"]
    if api_level and not signal:
        ksh = [ix.ids[s["id"]] for s in ix.S["stocks"] if s["board"] == "KSH"]
        t += [str(int(bool(cfgk["accounts_mod"].get("auto_switch_order_value")))), str(len(ksh))] + [str(x) for x in ksh]
    items, body = [], []
    skip_until = 0
    for idx, it in enumerate(list(inputs) + [None]):
        for c in calls_at.get(idx, []):
            a, b = c["in_range"]
            body += api_toks(ix, c, [x["order"]["id"] for x in inputs[a:b]])
            items.append({"k": "K", "api": c["api"], "args": c["args"], "today": None,
                          "snap": {"accounts": c["after"], "pf": c["pf_after"], "open": c["open_after"]} if not c.get("_nested_calls") else None})
            skip_until = max(skip_until, b)
        if it is None or idx < skip_until:
            continue
        k = it["k"]
        if k == "P":
            body += ["P"] + day_toks(ix, cfgk, it["today"])
        elif k == "R" and cfgk.get("frequency", "1d") == "1m":
            rows = minute_rows(ix, cfgk, it["dt"])
            body += ["M", str(len(rows))] + [x for r in rows for x in r] + ["R"]
            items.append({"k": "M"})
        elif k == "S" and api_level and ix.S.get("trf"):
            # share conversion at the settlement of the predecessor's last trading day (the model converts what it holds)
            nxt8 = ix.next_day8(it["today"])
            for pred, tdata in ix.S["trf"].items():
                srec = ix.stock.get(pred)
                if srec is not None and srec["delisted"] is not None and nxt8 >= B.d8(srec["delisted"]) and tdata["successor"] in ix.ids:
                    body += ["V", str(ix.ids[pred]), str(ix.ids[tdata["successor"]]), f2b(float(tdata["share_conversion_ratio"]))]
                    items.append({"k": "V"})
            body.append("S")
        elif k in ("B", "A", "R", "T", "S"):
            body.append(k)
        elif k == "O":
            o = it["order"]
            if it.get("passed") and not it.get("submitted"):
                continue            # the validator chain was only ASKED (Environment.can_submit_order called directly): no order was handed to the broker
            if o["book"] not in ix.ids or o["effect"] not in EFFECTS:
                return None, "order_outside_model"
            if it.get("depth"):
                return None, "order_created_inside_an_account_operation"
            if o["qty"] != int(o["qty"]):
                return None, "fractional_order_quantity"
            body += ["O", str(o["id"]), str(ix.ids[o["book"]]), str(int(o["is_buy"])), str(int(o["is_limit"])), f2b(o["price"]), o["effect"], str(int(o["qty"]))]
        elif k == "C":
            body += ["C", str(it["id"])]
        elif k == "D":
            if it.get("units_pre") == 0:
                # finding F36: with no units left the code books the flow and the unit count becomes NaN for the rest of the run — the model (which refuses the flow)
                # has no NaN units; the run is outside the world's scope from here on
                return None, "cash_flow_with_no_units_left(F36)"
            if it.get("refused_by_portfolio"):
                continue            # refused by the portfolio before any account was touched (no units left to convert the flow into): nothing entered the world
            days = it["days"]
            body += ["D", str(types.index(it["account"])), f2b(it["amount"]), str(int(days >= 1)), str(ix.next_day8(it["today"], days) if days >= 1 else 0)]
        elif k == "F":
            body += ["F", str(types.index(it["acct"])), f2b(it["amount"])]
        else:
            return None, "unknown_input"
        items.append(it)
    return " ".join(t + [str(len(items))] + body), items


def parse_world(ix, seg):
    evs, state, pf, opens = [x.split() for x in seg.split("##")]
    accts = []
    cur = []
    for tok in state + ["@@"]:
        if tok == "@@":
            if cur:
                accts.append(acct_sync.parse_reply(ix, " ".join(cur)))
            cur = []
        else:
            cur.append(tok)
    return evs, accts, (b2f(pf[0]), b2f(pf[1])), [int(x) for x in opens]


def impl_events(tr):
    """the order events the implementation published, in the model's vocabulary"""
    out = []
    names = {"ORDER_PENDING_NEW": "PN", "ORDER_CREATION_PASS": "CP", "ORDER_UNSOLICITED_UPDATE": "UU", "ORDER_PENDING_CANCEL": "PC", "ORDER_CANCELLATION_PASS": "XP"}
    for kind, e in tr.events:
        if kind in names and e.get("order") is not None:
            out.append((names[kind], e["order"]["id"]))
        elif kind == "TRADE" and e.get("order") is not None:
            t = e["trade"]
            out.append(("TR", t["order_id"], int(t["qty"]), t["price"], t["commission"] + t["tax"]))
    return out


def run_sync(ctx, corrs, tr, ix):
    """corrs: dict from make_corrs.  Two levels: the strategy's calls as the orders they created, and as the API calls themselves."""
    why = supported(tr)
    if why is not None:
        ctx.stats["world_skipped:" + why] += 1
        return
    if tr.exc is not None:
        ctx.stats["world_skipped:run_ended_by_exception"] += 1
        return
    if tr.S.get("trf"):
        ctx.stats["world_runs_with_share_conversion(api_level_only)"] += 1
    else:
        run_level(ctx, corrs, tr, ix, False)
    if tr.cfg["sim"].get("signal"):
        ctx.stats["world_runs_signal_mode"] += 1
        return
    if any("in_range" in c for c in tr.calls):
        run_level(ctx, {k[:-4]: v for k, v in corrs.items() if k.endswith("_api")}, tr, ix, True)


DAY_1D = re.compile(r"(PBAc*Rc*TS)+$")
DAY_SIGNAL = re.compile(r"(PAc*Rc*S)+$")          # signal mode: no simulation broker, hence no broker-side markers
DAY_1M = re.compile(r"(PBAc*(MRc*)+TS)+$")


def run_level(ctx, corrs, tr, ix, api_level):
    line, items = build_request(tr, ix, api_level)
    if line is None:
        ctx.stats["world_skipped:" + items] += 1
        return
    if not api_level and "grammar" in corrs:
        # the hypothesis of the day-structure theorems (RQ/Lemmas/WorldF.lean): what drives a real run has the executor's shape, and the strategy's
        # calls fall inside open_auction / handle_bar only
        word = "".join(it["k"] if it["k"] in "PBARTSM" else "c" for it in items)
        minute = tr.cfg.get("frequency", "1d") == "1m"
        ok = bool((DAY_SIGNAL if tr.cfg["sim"].get("signal") else DAY_1M if minute else DAY_1D).match(word))
        if ok and minute:
            # a call belongs to the bar the broker has ALREADY processed: whatever sends orders at a bar (handle_bar, scheduled functions) runs after the broker's on_bar of that bar
            last_r = None
            for it in tr.rec.inputs:
                if it["k"] == "R":
                    last_r = it.get("dt")
                elif it["k"] in ("B", "A"):
                    last_r = None
                elif it["k"] == "O" and last_r is not None and it.get("dt") is not None and it["dt"] != last_r and not it.get("depth"):
                    ok = False
                    corrs["grammar"].add(False, {"order_created_at": str(it["dt"]), "last_bar_the_broker_processed": str(last_r), "run_seed": getattr(tr, "run_seed", None),
                                                 "note": "an order was created at a bar before the broker's on_bar of that bar ran"})
                    return
        corrs["grammar"].add(ok, {"days": word.count("P"), "calls": word.count("c")} if ok else {"inputs": word[:400], "run_seed": getattr(tr, "run_seed", None)})
    if api_level:
        ctx.stats["world_api_calls_sized_by_the_model"] += len([1 for it in items if it["k"] == "K"])
        for it in items:
            if it["k"] == "K":
                ctx.nontrivial("world_api", it["api"], it["args"][2] is not None)
    if not ctx.driver_ok:
        return
    rep = vlib.ask_driver([line])[0]
    if rep.startswith("ERR"):
        raise RuntimeError("driver: " + rep[:200])
    segs = [s.strip() for s in rep.split(";;")]
    tail_log = segs.pop()
    tail_orders = segs.pop()
    assert len(segs) == len(items), (len(segs), len(items))
    ctx.stats["world_runs" + ("_api_level" if api_level else "")] += 1
    ctx.stats["world_inputs"] += len(items)
    ctx.stats["world_account_operations_of_the_model"] += int(tail_log.split()[1])
    types = [t for t, _ in items[0]["pf_pre"]["accounts"]]
    model_events = []
    bad_state = None
    n_cmp = 0
    for idx, (it, seg) in enumerate(zip(items, segs)):
        evs, accts, (units, static), opens = parse_world(ix, seg)
        for e in evs:
            p = e.split(":")
            if p[0] == "TR":
                model_events.append(("TR", int(p[1]), int(p[2]), b2f(p[3]), b2f(p[4])))
            elif p[0] in ("PN", "CP", "UU", "PC", "XP"):
                model_events.append((p[0], int(p[1])))
        snap = it.get("snap")
        if snap is None or bad_state is not None:
            continue
        if any(acct_sync.nan_in(a) for a in snap["accounts"].values()):
            ctx.stats["world_snapshots_with_nan"] += 1
            bad_state = "nan"          # a NaN price entered a position: the comparison stops here (counted)
            continue
        if any(h[sd][fld] != int(h[sd][fld]) for a in snap["accounts"].values() for h in a["holdings"] for sd in ("long", "short") for fld in ("qty", "old", "logical_old")):
            bad_state = "fractional"
            continue
        n_cmp += 1
        diffs = []
        for t, am in zip(types, accts):
            d = acct_sync.diff_state(am, snap["accounts"][t], ctx.stats)
            diffs += [(t + "." + p, repr(m), repr(v)) for p, m, v in d[:4]]
        if not acct_sync.feq(units, snap["pf"]["units"]):
            nav_ = snap["pf"].get("nav")
            if nav_ is not None and nav_ == nav_ and abs(nav_) < 1e-3 and abs(units - snap["pf"]["units"]) <= 1e-6 * max(abs(units), abs(snap["pf"]["units"])):
                # a portfolio that has lost more than 99.9 % of its value: the total value is a small difference of large ledger entries (each compared to 1e-9), the unit count
                # computed from it is ill-conditioned — agreement to 1e-6 is what the inputs' agreement can guarantee
                ctx.stats["world_units_ill_conditioned_after_collapse"] += 1
            else:
                diffs.append(("units", repr(units), repr(snap["pf"]["units"])))
        if not acct_sync.feq(static, snap["pf"]["static_nav"]) and snap["pf"]["static_nav"] == snap["pf"]["static_nav"]:
            diffs.append(("static_nav", repr(static), repr(snap["pf"]["static_nav"])))
        if opens != list(snap["open"]):
            diffs.append(("open_orders", opens, list(snap["open"])))
        ok = not diffs
        corrs["state"].add(ok, {"input": idx, "kind": it["k"], "day": it.get("today"), "differences": diffs[:6], "run_seed": getattr(tr, "run_seed", None),
                                "run_index": getattr(tr, "run_index", None), "order": it.get("order")} if not ok else
                           {"input": idx, "kind": it["k"], "inputs_of_run": len(items)})
        if not ok:
            bad_state = "diverged"     # one divergence per run: everything after it differs for the same reason
    ctx.stats["world_states_compared"] += n_cmp
    ctx.evaluations += n_cmp
    if bad_state in ("nan", "fractional"):
        ctx.stats["world_runs_cut_short:" + bad_state] += 1
        return
    if bad_state == "diverged":
        return
    # ---- order events, in publication order
    ie = impl_events(tr)
    ok = len(ie) == len(model_events) and all(a[:3] == b[:3] and (len(a) == 3 or a[0] != "TR" or (acct_sync.feq(a[3], b[3]) and acct_sync.feq(a[4], b[4]))) for a, b in zip(model_events, ie))
    first = next((i for i, (a, b) in enumerate(zip(model_events, ie)) if a[:3] != b[:3] or (a[0] == "TR" and not (acct_sync.feq(a[3], b[3]) and acct_sync.feq(a[4], b[4])))), min(len(ie), len(model_events)))
    corrs["events"].add(ok, {"events": len(ie)} if ok else {"first_difference_at": first, "model": [str(x) for x in model_events[max(0, first - 2):first + 3]],
                                                            "implementation": [str(x) for x in ie[max(0, first - 2):first + 3]], "run_seed": getattr(tr, "run_seed", None), "run_index": getattr(tr, "run_index", None)})
    ctx.stats["world_events_compared"] += len(ie)
    # ---- every order's final state
    toks = tail_orders.split()
    assert toks[0] == "ORDERS"
    rows = [r.split() for r in " ".join(toks[1:]).split(",") if r.strip()]
    for r in rows:
        oid = int(r[0])
        o = tr.orders.get(oid)
        if o is None:
            corrs["orders"].add(False, {"order": oid, "problem": "unknown to the implementation's trace"})
            continue
        snap = {"status": o.status.name, "filled": int(o.filled_quantity), "avg": float(o.avg_price), "cost": float(o.transaction_cost)}
        ok = r[1] == snap["status"] and int(r[2]) == snap["filled"] and acct_sync.feq(b2f(r[3]), snap["avg"], ctx.stats) and acct_sync.feq(b2f(r[4]), snap["cost"], ctx.stats)
        corrs["orders"].add(ok, {"order": oid, "model": [r[1], int(r[2]), b2f(r[3]), b2f(r[4])], "implementation": snap} if not ok else None)
        ctx.nontrivial("world_order", r[1], int(r[2]) > 0, int(r[2]) == int(o.quantity))
    seen = {int(r[0]) for r in rows}
    pend = {e["order"]["id"] for k, e in tr.events if k == "ORDER_PENDING_NEW" and e.get("order")}
    if pend - seen:
        corrs["orders"].add(False, {"orders_accepted_by_the_implementation_only": sorted(pend - seen)[:5]})


def make_corrs(ctx):
    return {"state": ctx.corr("World: state after every input", "whole runs replayed by the FREE-RUNNING composed model from the starting portfolio, the day's market tables and the strategy's calls: "
                              "every account (all ledger fields and observers), portfolio units and the open-order list after each input"),
            "events": ctx.corr("World: published order events", "sequence of ORDER_* and TRADE events (order, quantity, price, fee) of the whole run"),
            "orders": ctx.corr("World: final order states", "status, filled quantity, average price and cost of every order the broker accepted"),
            "grammar": ctx.corr("World: inputs follow the executor's day structure", "the recorded inputs of every run form the word (P B A c* R c* T S)+ — per minute bar (M R c*)+ at minute "
                                "frequency — where c is a strategy call: the shape `Day.inputs` of RQ/Lemmas/WorldF.lean, the hypothesis of the quiet-books theorems"),
            "state_api": ctx.corr("World (API level): state after every input", "the same whole runs with the calls of the order-sizing APIs handed to the model AS CALLS (order_shares / order_lots / "
                                  "order_value / order_percent / order_target_value / order_target_percent / order / order_to on stocks, buy/sell open/close on futures): the model sizes each call on its own "
                                  "state (holding, closable, cash, total value, last price) and submits what it created; compared as above"),
            "events_api": ctx.corr("World (API level): published order events", "sequence of ORDER_* and TRADE events of the whole run"),
            "orders_api": ctx.corr("World (API level): final order states", "every order the model's sizing created and its broker accepted, against the implementation's")}

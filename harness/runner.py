"""Run the real rqalpha (from /repo's working tree) in-process on a synthetic bundle."""
import os, sys, tempfile, shutil, copy, contextlib
import bundle as B

_TMPROOT = "/dev/shm" if os.path.isdir("/dev/shm") and os.access("/dev/shm", os.W_OK) else tempfile.gettempdir()


def base_config(S, path, accounts, frequency="1d", sim=None, accounts_mod=None, cost=None, risk=None, extra_mods=None,
                analyser=False, start=None, end=None, base_extra=None):
    cfg = {
        "base": {"data_bundle_path": path, "start_date": (start or S["start"]).isoformat(), "end_date": (end or S["end"]).isoformat(),
                 "frequency": frequency, "accounts": dict(accounts)},
        "extra": {"log_level": "error"},
        "mod": {
            "sys_progress": {"enabled": False},
            "sys_analyser": {"enabled": bool(analyser), "plot": False, "report": False} if not isinstance(analyser, dict) else analyser,
            "sys_accounts": dict(accounts_mod or {}),
            "sys_simulation": dict(sim or {}),
            "sys_transaction_cost": dict(cost or {}),
            "sys_risk": dict(risk or {}),
        },
    }
    if base_extra:
        cfg["base"].update(base_extra)
    cfg["mod"]["rqv_probe"] = {"enabled": True, "lib": "probe_mod", "priority": 1000}
    for name, mc in (extra_mods or {}).items():
        cfg["mod"][name] = mc
    return cfg


def reset_dispatch():
    """Work-around for finding F19 (instype_singledispatch keeps the first run's data_proxy in a closure) so that
    unrelated checks can run many scenarios in one process.  C13's own check does NOT call this."""
    import rqalpha.apis.api_abstract as A
    n = 0
    for name in dir(A):
        f = getattr(A, name)
        seen = set()
        while callable(f) and id(f) not in seen:
            seen.add(id(f))
            for cell in (getattr(f, "__closure__", None) or ()):
                try:
                    v = cell.cell_contents
                except ValueError:
                    continue
                if hasattr(v, "cache_clear") and hasattr(v, "__wrapped__"):
                    try:
                        v.cache_clear()
                    except Exception:
                        pass
                    for c2 in (v.__wrapped__.__closure__ or ()):
                        try:
                            if type(c2.cell_contents).__name__ == "DataProxy":
                                c2.cell_contents = None
                                n += 1
                        except ValueError:
                            pass
            f = getattr(f, "__wrapped__", None)
    return n


@contextlib.contextmanager
def bundle_dir(S):
    path = tempfile.mkdtemp(prefix="rqv_", dir=_TMPROOT)
    try:
        B.write_bundle(S, path)
        yield path
    finally:
        shutil.rmtree(path, ignore_errors=True)


def run_real(S, cfg_kwargs, handlers, workaround_f19=False, path=None):
    """handlers: dict with any of init/before_trading/open_auction/handle_bar/after_trading.
    Returns (result, exception)."""
    from rqalpha import run_func
    if workaround_f19:
        reset_dispatch()

    def go(p):
        cfg = base_config(S, p, **cfg_kwargs)
        import probe_mod
        probe_mod.LAST.clear()
        try:
            with open(os.devnull, "w") as dn, contextlib.redirect_stderr(dn):     # rqalpha logs expected user errors to stderr
                res = run_func(config=cfg, **handlers)
            # a failed run returns None silently: the exception handed to the mods' tear_down tells
            if probe_mod.LAST.get("code") not in (None, "EXIT_SUCCESS"):
                ex = probe_mod.LAST.get("exc_val") or probe_mod.LAST.get("exception") or RuntimeError(probe_mod.LAST.get("code"))
                return None, ex
            return res, None
        except BaseException as ex:      # run_func re-raises strategy errors
            if isinstance(ex, KeyboardInterrupt):
                raise
            return None, ex
    if path is not None:
        return go(path)
    with bundle_dir(S) as p:
        return go(p)

"""Harness-side mod (rqalpha's own extension point): records the exit code and exception handed to tear_down."""
from rqalpha.interface import AbstractMod
LAST = {}


class Mod(AbstractMod):
    def start_up(self, env, mod_config):
        LAST.clear()
        LAST["started"] = True

    def tear_down(self, code, exception=None):
        LAST["code"] = getattr(code, "name", str(code))
        LAST["exception"] = exception
        err = getattr(exception, "error", None)
        LAST["exc_val"] = getattr(err, "exc_val", None)


def load_mod():
    return Mod()

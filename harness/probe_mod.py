"""Harness-side mod (rqalpha's own extension point): records the exit code and exception handed to tear_down."""
from rqalpha.interface import AbstractMod
LAST = {}


class Mod(AbstractMod):
    def start_up(self, env, mod_config):
        LAST.clear()
        LAST["started"] = True
        self._env = env

    def tear_down(self, code, exception=None):
        LAST["code"] = getattr(code, "name", str(code))
        LAST["exception"] = exception
        err = getattr(exception, "error", None)
        LAST["exc_val"] = getattr(err, "exc_val", None)
        try:        # the portfolio as the other mods' tear_down will see it (this mod has the highest priority: torn down first)
            p = self._env.portfolio
            LAST["final"] = {"total_value": float(p.total_value), "cash": float(p.cash), "nav": float(p.unit_net_value), "units": float(p.units),
                             "total_returns": float(p.total_returns), "market_value": float(p.market_value), "static_nav": float(p.static_unit_net_value),
                             "trading_date": self._env.trading_dt.date(), "start_date": self._env.config.base.start_date, "end_date": self._env.config.base.end_date}
        except Exception as ex:
            LAST["final"] = None


def load_mod():
    return Mod()

"""Minute-frequency variant of the trading stream (stock accounts, 2-3 days, stock minute grid; matching current_bar / next_bar).  Only the
model-independent monitors run on it (the step-sync inputs are derived from day bars).  Every run starts with the directed auction
scenario: an order placed in the first opening auction that cannot fill there and is cancelled at once."""
import random
import bundle as B, trading, acct_sync, minute_run


def stream(ctx, n_runs, monitors_, sched_clause=None):
    forced = getattr(ctx, "replay_run", None)
    for k in range(n_runs if not forced else 1):
        if forced and isinstance(forced[0], str) and forced[0].startswith("m"):
            rs, k = forced[1], int(forced[0][1:])
        elif forced:
            return
        else:
            rs = ctx.rnd.random()
        rnd = random.Random(rs)
        S = B.gen_market(rnd, ndays=rnd.randrange(2, 4), warm=1, with_future=False, opts={"p_delist": 0, "p_split": 0, "p_div": 0})
        if not S["stocks"]:
            continue
        cfgk = trading.gen_config(rnd, S, {"no_signal": True})
        if "stock" not in cfgk["accounts"]:
            continue
        cfgk["frequency"] = "1m"
        cfgk["sim"]["matching_type"] = "next_bar" if (k % 3 != 2) else "current_bar"
        cfgk["risk"] = {"validate_price": False}
        cfgk["extra_mods"] = {"rqv_minute": {"enabled": True, "lib": "minute_source"}}
        minute_run.install_minutes(S, rnd)
        oid = S["stocks"][0]["id"]
        done = {}

        sched_minute = rnd.randrange(2, 30)
        fires = []
        from rqalpha.environment import Environment
        toggled = {}

        def script(tr, handlers):
            au0 = handlers["open_auction"]
            init0 = handlers["init"]

            def init(context):
                import rqalpha.api as api
                init0(context)

                def scheduled(c, bar_dict):
                    # an order sent from a scheduled function: like one sent from handle_bar it is first looked at by the matcher AFTER the bar in which it was created
                    try:
                        o = api.order_shares(oid, 100)
                    except Exception:
                        o = None
                    if o is not None:
                        tr.orders[o.order_id] = o
                    tr.stats["orders_from_scheduled_function"] += 1
                    fires.append(Environment.get_instance().calendar_dt)
                api.scheduler.run_daily(scheduled, time_rule=api.market_open(minute=sched_minute))

            def open_auction(context, bar_dict):
                import rqalpha.api as api
                from rqalpha.model.order import LimitOrder
                if "d" not in done:
                    done["d"] = True
                    p = bar_dict[oid].open
                    if p == p and p > 0:
                        o = api.order_shares(oid, 100, price_or_style=LimitOrder(round(p * 0.97, 2)))
                        if o is not None:
                            tr.orders[o.order_id] = o
                            api.cancel_order(o)
                au0(context, bar_dict)
            hb0 = handlers["handle_bar"]

            def handle_bar(context, bar_dict):
                import rqalpha.api as api
                now = Environment.get_instance().calendar_dt
                if now.hour * 60 + now.minute == 571 + sched_minute - 1 and sched_clause:
                    # the universe changes in the bar BEFORE the one the scheduled function is due at: the event source re-reads its minutes; no bar may get lost
                    tgt = S["stocks"][-1]["id"]
                    (api.unsubscribe if toggled.get("on", True) else api.subscribe)(tgt)
                    toggled["on"] = not toggled.get("on", True)
                    tr.stats["universe_changes_before_scheduled_bar"] += 1
                hb0(context, bar_dict)
            return dict(handlers, init=init, open_auction=open_auction, handle_bar=handle_bar)
        tr = trading.run_trading(rnd, S, cfgk, intensity=0.5, script=script)
        tr.run_seed, tr.run_index = rs, "m%d" % k
        ctx.stats["minute_runs"] += 1
        ctx.stats["minute_orders_from_scheduled_function"] += tr.stats.get("orders_from_scheduled_function", 0)
        ctx.stats["minute_runs_" + cfgk["sim"]["matching_type"]] += 1
        ctx.stats["minute_trades"] += len([1 for kd, _ in tr.events if kd == "TRADE"])
        if tr.exc is not None:
            ctx.stats["minute_runs_ended_by_exception:" + type(tr.exc).__name__] += 1
        ix = acct_sync.Index(S, cfgk)
        import tstream, world_sync
        world_sync.run_sync(ctx, tstream.world_corrs(ctx), tr, ix)        # the free-running composed model, fed one minute bar after the other
        for m in monitors_:
            m(ctx, tr, ix)
        if sched_clause and tr.exc is None:
            import datetime
            days = [d for d in S["cal"] if S["start"] <= d <= S["end"]]
            want = [datetime.datetime.combine(d, datetime.time((571 + sched_minute) // 60, (571 + sched_minute) % 60)) for d in days]
            ctx.evaluations += len(want)
            ctx.stats["minute_scheduled_days"] += len(want)
            ctx.stats["minute_universe_changes_before_scheduled_bar"] += tr.stats.get("universe_changes_before_scheduled_bar", 0)
            ctx.nontrivial("1m-real-run", cfgk["sim"]["matching_type"], len(days))
            if fires != want:
                ctx.witness(sched_clause, {"kind": "minute_run_time_rule"}, "minute back-test, run_daily(time_rule=market_open(minute=%d)), the universe changes in the bar before: fired at %s; specification %s"
                            % (sched_minute, [str(x) for x in fires], [str(x) for x in want]), {"run_seed": rs, "run_index": "m%d" % k})

"""Shared helpers of the verification harness (runs under /venv/bin/python, PYTHONPATH=/repo)."""
import os, sys, struct, subprocess, json, time, hashlib, random, collections

VERIF = os.path.abspath(os.path.join(os.path.dirname(os.path.abspath(__file__)), ".."))
LEAN = os.path.join(VERIF, "lean")
REPO = os.environ.get("VERIF_REPO", "/repo")
DRV = os.path.join(LEAN, ".lake", "build", "bin", "drv")
W = sys.__stdout__.write


def f2b(x):
    """float -> decimal uint64 bit pattern (string)"""
    return str(struct.unpack("<Q", struct.pack("<d", float(x)))[0])


def b2f(s):
    return struct.unpack("<d", struct.pack("<Q", int(s)))[0]


def of2b(x):
    """optional float: None or NaN -> '-'"""
    if x is None:
        return "-"
    x = float(x)
    return "-" if x != x else f2b(x)


def ob2f(s):
    return None if s == "-" else b2f(s)


def bit_eq(a, b):
    return f2b(a) == f2b(b)


def close(a, b, rel=1e-9, ab=1e-9):
    return abs(a - b) <= max(ab, rel * max(abs(a), abs(b)))


def ask_driver(lines, timeout=600):
    """Send request lines to the compiled Lean model driver; return the reply lines (same length)."""
    if not lines:
        return []
    p = subprocess.run([DRV], input="\n".join(lines) + "\n", capture_output=True, text=True, timeout=timeout)
    if p.returncode != 0:
        raise RuntimeError("driver failed rc=%s: %s" % (p.returncode, p.stderr[-2000:]))
    out = p.stdout.split("\n")
    if out and out[-1] == "":
        out.pop()
    if len(out) != len(lines):
        raise RuntimeError("driver replied %d lines for %d requests" % (len(out), len(lines)))
    return out


class Corr(object):
    """One correspondence obligation: the model (Lean, Float instance) and the implementation are run on
    the same inputs; `cases` counts inputs, `mismatches` keeps the first few disagreements."""

    def __init__(self, name, what):
        self.name = name
        self.what = what
        self.cases = 0
        self.mismatches = []
        self.n_mismatch = 0
        self.samples = []

    def add(self, ok, case=None):
        self.cases += 1
        if not ok:
            self.n_mismatch += 1
            if len(self.mismatches) < 5:
                self.mismatches.append(case)
        elif case is not None and len(self.samples) < 2:
            self.samples.append(case)

    def as_dict(self):
        return {"name": self.name, "what": self.what, "cases": self.cases, "mismatches": self.n_mismatch,
                "first_mismatches": self.mismatches}


class Witness(object):
    """A concrete input / history on which the property fails on the IMPLEMENTATION."""

    def __init__(self, clause, signature, what, replay):
        self.clause = clause          # e.g. "C11.1"
        self.signature = signature    # dict used to match known findings
        self.what = what              # human readable
        self.replay = replay          # JSON-serialisable replay description

    def as_dict(self):
        return {"clause": self.clause, "signature": self.signature, "what": self.what, "replay": self.replay}


class Ctx(object):
    """Per-run context handed to a property module."""

    def __init__(self, prop, tier, seed):
        self.prop = prop
        self.tier = tier
        self.seed = seed
        self.rnd = random.Random((hash(prop) & 0xffff) * 1000003 + seed) if False else random.Random("%s/%d" % (prop, seed))
        self.corrs = []
        self.witnesses = []
        self.stats = collections.Counter()
        self.samples = []
        self.signatures = set()       # branch-signature hashes of non-trivial cases
        self.evaluations = 0
        self.notes = []
        self.budget_scale = 1.0
        self.search_mode = False

    def corr(self, name, what):
        c = Corr(name, what)
        self.corrs.append(c)
        return c

    def witness(self, clause, signature, what, replay):
        w = Witness(clause, signature, what, replay)
        self.witnesses.append(w)
        return w

    def nontrivial(self, *sig):
        self.signatures.add(hashlib.md5(repr(sig).encode()).hexdigest()[:12])

    def sample(self, s):
        if len(self.samples) < 6:
            self.samples.append(s)

    def n(self, quick, thorough):
        """budget by tier (scaled up in search mode)"""
        base = quick if self.tier == "quick" else thorough
        return max(1, int(base * self.budget_scale))


def load_known_findings():
    p = os.path.join(VERIF, "known_findings.json")
    if not os.path.exists(p):
        return {"findings": [], "fixed": []}
    return json.load(open(p))


def match_finding(w, findings, prop):
    """A finding suppresses only witnesses whose structured signature matches all keys of `match`."""
    for f in findings:
        if f.get("property") != prop:
            continue
        m = f.get("match", {})
        if all(w.signature.get(k) == v for k, v in m.items()):
            return f
    return None

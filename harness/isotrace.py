"""Scenarios and canonical traces for the determinism / isolation check (C13).  A scenario is a pure function of its spec
(seed, kind, superset size): market, configuration and scripted strategy are all derived from one PRNG.  The canonical trace
lists every lifecycle snapshot, order event, trade and API call of the run with floats as repr strings (bit-exact) and order ids
renumbered by first appearance (ids start at the wall clock of the process)."""
import random, datetime, copy
import bundle as B, trading

KINDS = ["stock", "future", "mixed", "t0", "noreinvest", "fail", "analyser", "initpos", "rebalance", "splithold"]


def build(spec):
    rnd = random.Random(spec["seed"])
    kind = spec["kind"]
    wf = {"stock": False, "t0": False, "noreinvest": False, "future": True, "mixed": True, "initpos": True, "rebalance": False, "splithold": False, "decsell": False, "roundprice": False}.get(kind)
    opts = {"p_delist": 0, "p_sus": 0, "p_thin": 0} if kind == "rebalance" else None
    if kind == "splithold":        # a holding carried over a split (share quantities recomputed with the decimal module)
        opts = {"kinds": ["CS"], "p_delist": 0, "p_sus": 0, "p_split": 1.0, "p_div": 0}
    if kind == "decsell":
        opts = {"kinds": ["CS"], "p_delist": 0, "p_sus": 0, "p_split": 0, "p_div": 0, "p_thin": 0, "p_limit": 0}
    S = B.gen_market(rnd, ndays=rnd.randrange(8, 14) if kind in ("splithold", "decsell") else rnd.randrange(6, 14), with_future=wf,
                     n_stocks=0 if kind == "future" else (3 if kind == "rebalance" else 1 if kind in ("splithold", "decsell") else None), opts=opts)
    cfgk = trading.gen_config(rnd, S, {"no_signal": True})
    if kind in ("splithold", "decsell"):
        cfgk["accounts"] = {"stock": 1000000.0}
        st0 = S["stocks"][0]
        cfgk["base_extra"] = dict(cfgk.get("base_extra") or {}, init_positions="%s:1000" % st0["id"])
    if kind == "decsell":
        # value-based sales whose quotient value/price is a whole number only after rounding to the module's 10 significant digits:
        # every bar closes at a price whose double lies above its decimal value; the directed plan sells exact multiples of it
        px = rnd.choice([11.3, 14.9, 33.34])
        for i in sorted(st0["bars"]):
            b = st0["bars"][i]
            st0["bars"][i] = (b[0], px, px, px, px, 1e6, 1e6 * px, round(px * 1.1, 2), round(px * 0.9, 2))
        S["_decsell"] = px
        cfgk["sim"].update(volume_limit=False, signal=False, slippage=0, matching_type="current_bar")
        cfgk["accounts_mod"]["stock_t1"] = True
    if kind == "future":
        cfgk["accounts"].pop("stock", None)
    if "stock" not in cfgk["accounts"]:
        cfgk["sim"].pop("management_fee", None)
    if kind == "initpos" and S["futures"] and "future" in cfgk["accounts"]:
        # the run starts from configured positions (base.init_positions) and the scripted strategy is told not to trade futures itself
        f0 = S["futures"][0]
        cfgk["base_extra"] = dict(cfgk.get("base_extra") or {}, init_positions="%s:%d" % (f0["id"], rnd.choice([2, 3, -2])))
        cfgk["_no_future_orders"] = True
    if kind == "roundprice":
        # limit prices are rounded to the tick (base.round_price): the rounding helper works under a local decimal context that must not outlive the call
        cfgk["base_extra"] = dict(cfgk.get("base_extra") or {}, round_price=True)
    if kind == "t0":
        cfgk["accounts_mod"]["stock_t1"] = False
    if kind == "stock":
        cfgk["accounts_mod"]["stock_t1"] = True
    if kind == "rebalance":
        cfgk["accounts"]["stock"] = 2000000.0
        cfgk["sim"].update(volume_limit=False, signal=False)
    if kind == "noreinvest":
        cfgk["accounts_mod"]["dividend_reinvestment"] = False
        cfgk["accounts_mod"]["cash_return_by_stock_delisted"] = False
    ids = [s["id"] for s in S["stocks"]] + [f["id"] for f in S["futures"]]
    # an instrument only this scenario's data set knows (the strategy refers to it once a day through an order API)
    own = None
    if S["stocks"] and "stock" in cfgk["accounts"]:
        own = "30%04d.XSHE" % (spec["seed"] % 10000)
        src = S["stocks"][0]
        S["stocks"].append(dict(src, id=own, bars=dict(src["bars"]), type="CS", board="MainBoard", lot=100.0))
        if src["id"] in S["fac"]:
            S["fac"][own] = [(0, 1.0)]
        ids.append(own)
    # unreferenced instruments (superset of the data set): before and after the referenced ones
    k = spec.get("extra", 0)
    if k:
        xr = random.Random(spec["seed"] * 7919 + 13)
        X = B.gen_market(xr, ndays=len(S["cal"]) - S["warm"], warm=S["warm"], n_stocks=k, with_future=False)
        extras = []
        for j, st in enumerate(X["stocks"]):
            nid = "9%05d.XSHG" % (j + 1)
            bars = {i: (B.d14(S["cal"][i]),) + tuple(b[1:]) for i, b in st["bars"].items() if i < len(S["cal"])}
            if not bars:
                continue
            extras.append(dict(st, id=nid, bars=bars, listed=S["cal"][min(bars)], delisted=None))
            S["fac"][nid] = [(0, 1.0)]
        S["stocks"] = extras[: len(extras) // 2] + S["stocks"] + extras[len(extras) // 2:]
    return S, cfgk, ids, own


def fr(x):
    if isinstance(x, float):
        return repr(x)
    if isinstance(x, (datetime.datetime, datetime.date)):
        return x.isoformat()
    if isinstance(x, dict):
        return {str(k): fr(v) for k, v in x.items()}
    if isinstance(x, (list, tuple)):
        return [fr(v) for v in x]
    if isinstance(x, (int, str, bool)) or x is None:
        return x
    return repr(x)


def canon(tr):
    ren = {}

    def rid(i):
        if i is None:
            return None
        if i not in ren:
            ren[i] = len(ren)
        return ren[i]

    def osnap(o):
        if o is None:
            return None
        return fr(dict(o, id=rid(o["id"])))
    out = []
    for kind, e in tr.events:
        if kind == "CALL":
            out.append(["CALL", e["phase"], fr(e["when"]), e["api"], fr(e["args"]) if e["api"] != "cancel_order" else [rid(a) for a in e["args"]], [osnap(o) for o in e["orders"]], fr(e["exc"]),
                        [rid(i) for i in e.get("open_after", [])]])
        elif kind == "TRADE":
            t = dict(e["trade"])
            t["order_id"] = rid(t["order_id"])
            t["exec_id"] = rid(("x", t["exec_id"]))
            out.append(["TRADE", fr(e["cal"]), fr(t), osnap(e["order"]), fr(e["accounts"])])
        elif kind in ("UNIVERSE_ORDER", "OWN_INSTRUMENT", "SCHEDULED", "QUERY"):
            out.append([kind, fr(e)])
        elif kind == "BEFORE_TRADING_CB":
            out.append([kind, fr(e["cal"]), fr(e["last"])])
        elif kind == "AFTER_TRADING_CB":
            out.append([kind, fr(e["cal"]), [(rid(i), st) for i, st in e["open"]], [(rid(i), st) for i, st in e["live"]]])
        elif "order" in e and kind.startswith("ORDER_"):
            out.append([kind, fr(e["cal"]), osnap(e["order"]), e.get("reason"), e.get("book"), fr(e["accounts"]), [rid(i) for i in e["open"]]])
        else:
            out.append([kind, fr(e["cal"]), fr(e.get("trd")), fr(e["accounts"]), fr(e["pf"]), [rid(i) for i in e["open"]]])
    out.append(["END", type(tr.exc).__name__ if tr.exc is not None else None])
    return out


def first_difference(a, b):
    for i, (x, y) in enumerate(zip(a, b)):
        if x != y:
            return i, x, y
    if len(a) != len(b):
        return min(len(a), len(b)), (a[len(b)] if len(a) > len(b) else None), (b[len(a)] if len(b) > len(a) else None)
    return None

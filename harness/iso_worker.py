#!/venv/bin/python
"""Subprocess worker of the C13 check: runs the scenarios of a job, one after the other IN THIS PROCESS, on the real rqalpha, and prints
for each the canonical trace and the process-level state the run observed.  No work-around for any isolation defect is applied here."""
import sys, os, json, random
sys.path.insert(0, os.path.dirname(os.path.abspath(__file__)))
import isotrace, trading

OWNERS = {}     # id(object) -> index of the run that created it


def run_scenario(spec, k, switches):
    from rqalpha.environment import Environment
    S, cfgk, ids, own = isotrace.build(spec)
    no_fut = cfgk.pop("_no_future_orders", False)
    trade_ids = [i for i in ids if not (no_fut and "." not in i)]
    obs = {}
    day_done = {}

    def script(tr, handlers):
        init0, hb0 = handlers["init"], handlers["handle_bar"]

        def init(context):
            import rqalpha.api as api
            env = Environment.get_instance()
            init0(context)
            live = [i for i in ids if env.data_proxy.instrument(i) is not None]
            api.update_universe(live)
            # a scheduled function (registered with the scheduler object rqalpha.api exposes to this run)
            api.scheduler.run_daily(lambda c, b: tr.events.append(("SCHEDULED", {"day": Environment.get_instance().trading_dt.date()})))
            # ---- process-level state as this run sees it
            sw = []
            for name in switches:
                cls, attr = name.split(".")
                import rqalpha.mod.rqalpha_mod_sys_accounts.position_model as pm
                sw.append(getattr(getattr(pm, cls), attr, None))
            obs["switches"] = [None if v is None else int(v) for v in sw]
            sched_mod = env.mod_dict.get("sys_scheduler")
            mine = getattr(sched_mod, "_scheduler", None)
            OWNERS.setdefault(id(mine), k)
            obs["api_scheduler_owner"] = OWNERS.get(id(getattr(api, "scheduler", None)))
            an = env.mod_dict.get("sys_analyser")
            ps = getattr(an, "_plot_store", None)
            if ps is not None:
                OWNERS.setdefault(id(ps), k)
                obs["api_plot_owner"] = OWNERS.get(id(getattr(getattr(api, "plot", None), "__self__", None)))
            obs["env_is_mine"] = Environment.get_instance().config.base.data_bundle_path == env.config.base.data_bundle_path

        def handle_bar(context, bar_dict):
            import rqalpha.api as api
            env = Environment.get_instance()
            d = env.trading_dt.date()
            tr.events.append(("UNIVERSE_ORDER", {"keys": list(bar_dict.keys())}))
            if own is not None and d not in day_done:
                day_done[d] = True
                try:
                    o = api.order_shares(own, 100)
                    r = "order:%s" % (o.status.name if o is not None else None)
                except Exception as ex:
                    r = "raised:%s" % type(ex).__name__
                tr.events.append(("OWN_INSTRUMENT", {"day": d, "result": r}))
                obs.setdefault("own_results", []).append(r)
            if spec["kind"] == "fail" and len(day_done) >= 2:
                raise ValueError("strategy bug injected by the harness")
            if no_fut and "FUTURE" in context.portfolio.accounts:
                # the only futures order of an init-positions run: an opening order sized by the available cash (margin must be the real one)
                a = context.portfolio.accounts["FUTURE"]
                f0 = next(i for i in ids if "." not in i)
                p_ = bar_dict[f0].close
                if p_ == p_ and p_ > 0 and len(day_done) == 2:
                    try:
                        o = api.buy_open(f0, max(1, int(a.cash / (p_ * 10 * 0.1) * 0.9)))
                        r = "order:%s" % (o.status.name if not isinstance(o, list) else [x.status.name for x in o])
                    except Exception as ex:
                        r = "raised:" + type(ex).__name__
                    tr.events.append(("OWN_INSTRUMENT", {"day": d, "result": "init-position leg: cash %r margin %r -> %s" % (a.cash, a.margin, r)}))
            if spec["kind"] == "rebalance" and "STOCK" in context.portfolio.accounts:
                sids = sorted(i for i in ids if "." in i)
                if len(day_done) == 1:
                    for i in sids:
                        try:
                            api.order_shares(i, 300)
                        except Exception:
                            pass
                elif len(day_done) == 3:
                    # everything except the first stock is closed by one call: several positions absent from the target
                    api.order_target_portfolio({sids[0]: 0.1})
            # once in a while: rebalance to a one-stock target portfolio (everything else held is closed, in the API's own order)
            stocks_held = [p.order_book_id for p in api.get_positions() if "." in p.order_book_id and p.quantity > 0]
            if len(stocks_held) >= 2 and len(day_done) % 3 == 0 and "STOCK" in context.portfolio.accounts:
                try:
                    api.order_target_portfolio({sorted(stocks_held)[0]: 0.2})
                except Exception as ex:
                    tr.events.append(("OWN_INSTRUMENT", {"day": d, "result": "order_target_portfolio raised " + type(ex).__name__}))
            hb0(context, bar_dict)
        bt0 = handlers.get("before_trading")

        def before_trading(context):
            if spec["kind"] == "failbt" and len(day_done) >= 1:
                raise ValueError("strategy bug injected by the harness (before the open)")
            if bt0 is not None:
                bt0(context)
        return dict(handlers, init=init, handle_bar=handle_bar, before_trading=before_trading)
    rnd = random.Random(spec["seed"] + 1)
    an = {"enabled": True, "record": True, "plot": False, "benchmark": None} if spec["kind"] == "analyser" else False
    tr = trading.run_trading(rnd, S, cfgk, script=script, ids=trade_ids, analyser=an, workaround_f19=False)
    want_sw = {"StockPosition.dividend_reinvestment": cfgk["accounts_mod"].get("dividend_reinvestment", False),
               "StockPosition.cash_return_by_stock_delisted": cfgk["accounts_mod"].get("cash_return_by_stock_delisted", True),
               "StockPosition.t_plus_enabled": cfgk["accounts_mod"].get("stock_t1", True)}
    return {"spec": spec, "trace": isotrace.canon(tr), "obs": obs, "config_switches": [int(bool(want_sw.get(n))) if n in want_sw else None for n in switches],
            "own": own, "n_events": len(tr.events), "exc": type(tr.exc).__name__ if tr.exc is not None else None,
            "analyser": bool(an)}


def main():
    job = json.load(sys.stdin)
    out = []
    for k, spec in enumerate(job["specs"], start=1):
        out.append(run_scenario(spec, k, job["switches"]))
    json.dump(out, sys.stdout)


if __name__ == "__main__":
    main()

"""The 'trading stream': generated market + configuration + a deterministic scripted strategy that exercises the order, cancel
and cash APIs in the auction and in bars of a real run.  Returns everything the property monitors and the step-sync
correspondences need: account operations (recorder), published order/trade events with order snapshots, API calls with
snapshots around them, lifecycle snapshots."""
import random, datetime, collections
import bundle as B, runner, recorder


def gen_config(rnd, S, opts=None):
    opts = opts or {}
    sim = {"volume_limit": rnd.random() < 0.7, "volume_percent": rnd.choice([0.25, 0.25, 0.3, 1.0, 0.1]),
           "price_limit": rnd.random() < 0.8, "inactive_limit": rnd.random() < 0.8,
           "slippage_model": rnd.choice(["PriceRatioSlippage"] * 8 + ["TickSizeSlippage"] * 4 + ["LimitPriceSlippage"]),
           "slippage": rnd.choice([0, 0, 0, 0.002, 1.0])}
    if sim["slippage_model"] == "PriceRatioSlippage" and sim["slippage"] >= 1:
        sim["slippage"] = 0.01
    if opts.get("no_slippage"):
        sim["slippage"] = 0
    sim["matching_type"] = rnd.choice(["current_bar", "current_bar", "current_bar", "vwap"]) if not opts.get("current_bar_only") else "current_bar"
    sim["signal"] = (rnd.random() < 0.08) if not opts.get("no_signal") else False
    mgmt = rnd.choice([None, None, None, 0.0002])
    if mgmt:
        sim["management_fee"] = [("stock", mgmt)]
    acc_mod = {"stock_t1": rnd.random() < 0.7, "financing_rate": rnd.choice([0, 0, 0.05]),
               "dividend_reinvestment": rnd.random() < opts.get("p_reinvest", 0.25),
               "cash_return_by_stock_delisted": rnd.random() < 0.85,
               "futures_settlement_price_type": rnd.choice(["close", "settlement"])}
    if opts.get("c06_plans"):
        S["_c06_plans"] = True           # follow-up orders sent from a TRADE handler; a resting auction order plus bar orders on one instrument
    if opts.get("c15_plans"):
        S["_c15_plans"] = True           # sizing calls right after a resting purchase has reserved cash / while a partly filled sale is still resting
    if opts.get("pf_roundtrip"):
        S["_pf_roundtrip"] = True        # after the close of every day the portfolio's persisted state is read back into the running portfolio (a restore in place)
    if opts.get("pos_roundtrip"):
        S["_pos_roundtrip"] = True       # after each callback every position's state is written and read back into a fresh object: what can be closed must not change
    if opts.get("force_volume_limit"):
        sim["volume_limit"] = True
    if opts.get("trade_handler_acts"):
        S["_trade_handler_acts"] = True  # the strategy's TRADE handler sends follow-up orders and cancels other open orders while the matching pass runs
    if opts.get("pre_open_orders"):
        S["_pre_open"] = True            # a handler subscribed to EVENT.BEFORE_TRADING (GLOBAL phase: the order APIs are allowed) trades before the open
    if opts.get("off_grid"):
        S["_off_grid"] = True            # limit prices between two ticks; with base.round_price they are moved DOWN to the tick grid
        base_extra_round = rnd.random() < 0.7
    else:
        base_extra_round = False
    if opts.get("sell_on_payable"):
        S["_sell_on_payable"] = True
    if opts.get("fut_plan"):
        S["_fut_plan"] = opts["fut_plan"]
    if opts.get("otp"):
        S["_otp"] = True                 # order_target_portfolio calls with per-instrument limit prices
    if opts.get("frac_fut"):
        S["_frac_fut"] = True            # futures requests may carry fractional lot counts (truncated toward zero by the API)
    if opts.get("p_auto_switch") and rnd.random() < opts["p_auto_switch"]:
        acc_mod["auto_switch_order_value"] = True
    accounts = {}
    if S["stocks"]:
        accounts["stock"] = round(rnd.choice([3000, 20000, 200000, 2e6]) * rnd.uniform(0.5, 1.5), 2)
    if S["futures"]:
        accounts["future"] = round(rnd.choice([30000, 200000, 2e6]) * rnd.uniform(0.5, 1.5), 2)
    cost = {"stock_commission_multiplier": rnd.choice([1, 1, 0.5, 2]), "cn_stock_min_commission": rnd.choice([5, 5, 0, 1]),
            "tax_multiplier": rnd.choice([1, 1, 0, 2]), "futures_commission_multiplier": rnd.choice([1, 1, 2])}
    base_extra = {"margin_multiplier": rnd.choice([1, 1, 1.5]), "forced_liquidation": rnd.random() < 0.8}
    if base_extra_round:
        base_extra["round_price"] = True
    if opts.get("p_init_pos") and rnd.random() < opts["p_init_pos"]:
        # the run starts from configured holdings (base.init_positions): instruments that trade from the first day on
        ip = []
        for st in S["stocks"]:
            if "stock" in accounts and st["listed"] <= S["cal"][0] and rnd.random() < 0.6:
                ip.append("%s:%d" % (st["id"], rnd.choice([100, 300, 1000, 150])))
        for ft in S["futures"]:
            if "future" in accounts and rnd.random() < 0.5:
                ip.append("%s:%d" % (ft["id"], rnd.choice([2, 3, -2])))
        if ip:
            base_extra["init_positions"] = ",".join(ip)
    if opts.get("wipeout") and S["futures"] and "future" in accounts:
        # a leveraged long position held from the start (about 70% of the capital as margin) in the contract that collapses: total value <= 0 at a settlement
        f0 = S["futures"][0]
        p0 = f0["bars"][S["warm"] - 1][2]
        lots = max(1, int(0.7 * accounts["future"] / (p0 * f0["mult"] * f0["info"]["margin_rate"] * base_extra["margin_multiplier"])))
        base_extra["init_positions"] = "%s:%d" % (f0["id"], lots)
        base_extra["forced_liquidation"] = True
    return dict(accounts=accounts, sim=sim, accounts_mod=acc_mod, cost=cost, base_extra=base_extra)


class Trace(object):
    def __init__(self):
        self.rec = recorder.Recorder()
        self.events = []        # (kind, dict) in publication order: lifecycle, ORDER_*, TRADE
        self.calls = []         # API calls: dict(api, args, result order ids, exception, before, after, phase, when)
        self.orders = {}        # order_id -> order object (live)
        self.stats = collections.Counter()
        self.exc = None
        self.result = None
        self.cfg = None
        self.S = None


def order_snap(o):
    return {"id": o.order_id, "book": o.order_book_id, "side": o.side.name, "effect": o.position_effect.name, "type": o.type.name, "qty": o.quantity,
            "filled": o.filled_quantity, "status": o.status.name, "avg": float(o.avg_price), "cost": float(o.transaction_cost),
            "frozen_price": None if o._frozen_price is None else float(o._frozen_price), "init_frozen": None if o._init_frozen_cash is None else float(o._init_frozen_cash),
            "price": float(o.price), "direction": o.position_direction.name}


def run_trading(rnd, S, cfgk, intensity=1.0, script=None, analyser=False, ids=None, workaround_f19=False, reseed_key=None):
    """run the real rqalpha on (S, cfgk) with the scripted random strategy; returns a Trace"""
    from rqalpha.environment import Environment
    from rqalpha.core.events import EVENT
    from rqalpha.core.execution_context import ExecutionContext
    from rqalpha.model.order import LimitOrder
    from rqalpha.const import SIDE, POSITION_EFFECT, POSITION_DIRECTION
    tr = Trace()
    tr.S, tr.cfg = S, cfgk
    tr.probe_orders = set()
    srnd = random.Random(rnd.random())
    stocks = [s["id"] for s in S["stocks"]]
    futs = [f["id"] for f in S["futures"]]
    if ids is not None:          # the instruments the strategy refers to (the data set may hold more)
        stocks, futs = [x for x in stocks if x in ids], [x for x in futs if x in ids]
    life = ["PRE_BEFORE_TRADING", "POST_BEFORE_TRADING", "PRE_OPEN_AUCTION", "POST_OPEN_AUCTION", "PRE_BAR", "POST_BAR",
            "PRE_AFTER_TRADING", "POST_AFTER_TRADING", "PRE_SETTLEMENT", "POST_SETTLEMENT"]
    order_events = ["ORDER_PENDING_NEW", "ORDER_CREATION_PASS", "ORDER_CREATION_REJECT", "ORDER_PENDING_CANCEL", "ORDER_CANCELLATION_PASS",
                    "ORDER_CANCELLATION_REJECT", "ORDER_UNSOLICITED_UPDATE"]

    def accounts_snap(context):
        return {t: recorder.snap_account(a) for t, a in context.portfolio.accounts.items()}

    def pf_snap(context):
        p = context.portfolio
        return {"units": float(p.units), "nav": float(p.unit_net_value), "static_nav": float(p.static_unit_net_value), "total_value": float(p.total_value),
                "daily_returns": float(p.daily_returns), "total_returns": float(p.total_returns), "cash": float(p.cash), "market_value": float(p.market_value),
                "daily_pnl": float(p.daily_pnl)}

    def rows_snap(context):
        """the raw values the analyser's account / position records are made of"""
        accts, poss = [], []
        for t, a in context.portfolio.accounts.items():
            f = [a.cash, a.transaction_cost, a.market_value, a.total_value]
            if t == "FUTURE":
                f += [a.position_pnl, a.trading_pnl, a.daily_pnl, a.margin]
            accts.append((t, [float(x) for x in f]))
            if t == "STOCK":
                seen = []
                for pos in a.get_positions():
                    if pos.order_book_id not in seen and pos.direction == POSITION_DIRECTION.LONG:
                        seen.append(pos.order_book_id)
                        poss.append((pos.order_book_id, [float(pos.quantity), float(pos.last_price), float(pos.avg_price), float(pos.market_value)]))
        return accts, poss

    def init(context):
        from rqalpha.api import subscribe_event, subscribe
        env = Environment.get_instance()
        if futs:
            subscribe(futs)
        for name in life:
            def mk(name):
                def h(context, event):
                    tr.events.append((name, {"cal": env.calendar_dt, "trd": env.trading_dt, "accounts": accounts_snap(context), "pf": pf_snap(context),
                                             "daily_pnl": {t: float(a.daily_pnl) for t, a in context.portfolio.accounts.items()} if name == "POST_SETTLEMENT" else {},
                                             "rows": rows_snap(context) if name == "POST_SETTLEMENT" else None,
                                             "open": [o.order_id for o in env.broker.get_open_orders()]}))
                    tr.rec.attach(tr.events[-1][1]["accounts"], tr.events[-1][1]["pf"], tr.events[-1][1]["open"])
                return h
            subscribe_event(getattr(EVENT, name), mk(name))
        for name in order_events:
            def mk(name):
                def h(context, event):
                    o = getattr(event, "order", None)
                    if o is not None:
                        tr.orders[o.order_id] = o
                    tr.events.append((name, {"cal": env.calendar_dt, "order": order_snap(o) if o is not None else None,
                                             "reason": str(getattr(event, "reason", "")), "book": getattr(event, "order_book_id", None),
                                             "accounts": accounts_snap(context), "open": [x.order_id for x in env.broker.get_open_orders()]}))
                return h
            subscribe_event(getattr(EVENT, name), mk(name))

        def on_trade(context, event):
            t, o = event.trade, event.order
            if o is not None:
                tr.orders[o.order_id] = o
            tr.events.append(("TRADE", {"cal": env.calendar_dt, "trd": env.trading_dt, "phase_hint": tr.stats.get("_phase"),
                                        "trade": {"book": t.order_book_id, "price": float(t.last_price), "qty": t.last_quantity, "side": t.side.name, "effect": t.position_effect.name,
                                                  "commission": float(t.commission), "tax": float(t.tax), "order_id": t.order_id, "close_today": t.close_today_amount,
                                                  "exec_id": t.exec_id, "dt": t.datetime, "tdt": t.trading_datetime,
                                                  "frozen_price": float(t.frozen_price) if t.frozen_price is not None else None},
                                        "order": order_snap(o) if o is not None else None, "accounts": accounts_snap(context),
                                        "open": [x.order_id for x in env.broker.get_open_orders()]}))
            if S.get("_trade_handler_acts") and o is not None and plan.get("pair") == o.order_id and not follow["busy"]:
                # directed: the fill of the first order cancels the newest other open order on the instrument — the one whose submission
                # triggered this matching pass and which the pass has not reached yet
                plan["pair"] = None
                others = [x for x in env.broker.get_open_orders() if x.order_id != o.order_id and x.order_book_id == o.order_book_id]
                if others:
                    follow["busy"] = True
                    try:
                        trade_cancel(context, max(others, key=lambda x: x.order_id))
                        tr.stats["directed_cancel_of_next_in_pass"] += 1
                    finally:
                        follow["busy"] = False
            if S.get("_trade_handler_acts") and o is not None and plan.get("pair_bar") and plan["pair_bar"][0] == o.order_id and env.calendar_dt.hour != 0 and not follow["busy"]:
                # directed: at the day bar the fill of the first resting remainder cancels the second, which the same pass has not reached yet
                second = tr.orders.get(plan["pair_bar"][1])
                plan["pair_bar"] = None
                if second is not None and not second.is_final():
                    follow["busy"] = True
                    try:
                        trade_cancel(context, second)
                        tr.stats["directed_cancel_of_next_in_bar_pass"] += 1
                    finally:
                        follow["busy"] = False
            if S.get("_trade_handler_acts") and o is not None and reseed_key is None and not follow["busy"] and follow["rnd"].random() < 0.3:
                # a strategy that reacts to a fill by cancelling another order that is still open (possibly one the running matching pass has not reached yet)
                others = [x for x in env.broker.get_open_orders() if x.order_id != o.order_id]
                if others:
                    follow["busy"] = True
                    try:
                        trade_cancel(context, follow["rnd"].choice(others))
                    finally:
                        follow["busy"] = False
            if (S.get("_c06_plans") or S.get("_trade_handler_acts")) and o is not None and reseed_key is None and not follow["busy"] and t.order_book_id in stocks \
                    and tr.stats.get("_phase") == "BAR" and env.calendar_dt.hour != 0 and follow["rnd"].random() < 0.35:
                # (subscribed handlers run in the GLOBAL phase, where the order APIs are allowed; only while the day bar is being
                # handled: an order sent from a handler during the auction lands in the regular book — the mechanism of finding F18)
                # a strategy that reacts to its own fill: one more order on the same instrument, sent from inside the TRADE handler
                follow["busy"] = True
                try:
                    trade_followup(context, t.order_book_id)
                finally:
                    follow["busy"] = False
        subscribe_event(EVENT.TRADE, on_trade)
        if S.get("_pre_open") and reseed_key is None:
            def on_before_trading_event(context, event):
                # orders sent before the open must rest until the bar (finding F43: they used to be filled at the coming close at 00:00)
                if srnd.random() < 0.5:
                    ops(context, "BT")
            subscribe_event(EVENT.BEFORE_TRADING, on_before_trading_event)

    follow = {"busy": False, "rnd": random.Random(rnd.random()) if (S.get("_c06_plans") or S.get("_trade_handler_acts")) else None}

    def trade_cancel(context, order):
        import rqalpha.api as api
        env = Environment.get_instance()
        call = {"phase": tr.stats.get("_phase"), "when": env.calendar_dt, "api": "cancel_order", "args": (order.order_id,), "orders": [], "exc": None, "from_trade_handler": True}
        before, pf_before = accounts_snap(context), pf_snap(context)
        open_before = [x.order_id for x in env.broker.get_open_orders()]
        try:
            api.cancel_order(order)
        except Exception as ex:
            call["exc"] = (type(ex).__name__, str(ex)[:200])
        call.update(val_range=(len(tr.rec.validations), len(tr.rec.validations)), pos_before={}, open_after=[x.order_id for x in env.broker.get_open_orders()], open_before=open_before,
                    before=before, after=accounts_snap(context), pf_after=pf_snap(context), pf_before=pf_before)
        tr.calls.append(call)
        tr.events.append(("CALL", call))
        tr.stats["calls"] += 1
        tr.stats["cancels_from_trade_handler"] += 1

    def trade_followup(context, oid):
        import rqalpha.api as api
        env = Environment.get_instance()
        srec = next(x for x in S["stocks"] if x["id"] == oid)
        try:
            bar = srec["bars"].get(S["cal"].index(env.trading_dt.date()))
        except ValueError:
            bar = None
        if bar is None:
            return
        cap = int(round(bar[5] * cfgk["sim"].get("volume_percent", 0.25)))
        q = max(100, min(cap // 100 * 100, 20000))
        call = {"phase": tr.stats.get("_phase"), "when": env.calendar_dt, "api": "order_shares", "args": (oid, q, None), "orders": [], "exc": None, "from_trade_handler": True}
        before, pf_before = accounts_snap(context), pf_snap(context)
        n_val0 = len(tr.rec.validations)
        open_before = [x.order_id for x in env.broker.get_open_orders()]
        res = None
        try:
            if follow["rnd"].random() < 0.35:
                # a follow-up LIMIT order below the market: it does not fill now, it must rest in the book (and expire at the close) like any other order
                lim_ = round(bar[2] * 0.97, 2)
                call["args"] = (oid, 100, lim_)
                res = api.order_shares(oid, 100, price_or_style=LimitOrder(lim_))
                tr.stats["resting_followups_from_trade_handler"] += 1
            else:
                res = api.order_shares(oid, q)
        except Exception as ex:
            call["exc"] = (type(ex).__name__, str(ex)[:200])
        olist = [x for x in (res if isinstance(res, (list, tuple)) else [res]) if x is not None]
        for x in olist:
            tr.orders[x.order_id] = x
        call.update(val_range=(n_val0, len(tr.rec.validations)), pos_before={}, orders=[order_snap(x) for x in olist],
                    open_after=[x.order_id for x in env.broker.get_open_orders()], open_before=open_before, before=before, after=accounts_snap(context),
                    pf_after=pf_snap(context), pf_before=pf_before)
        tr.calls.append(call)
        tr.events.append(("CALL", call))
        tr.stats["calls"] += 1
        tr.stats["followups_from_trade_handler"] += 1

    def near_limit_today(env):
        out = []
        try:
            di = S["cal"].index(env.trading_dt.date())
        except ValueError:
            return out
        for srec in S["stocks"]:
            if srec["id"] not in stocks:
                continue
            bar = srec["bars"].get(di)
            if bar is not None and bar[5] > 0:
                if 0 < bar[7] - bar[2] <= 0.035:
                    out.append((srec["id"], "up"))
                if 0 < bar[2] - bar[8] <= 0.035:
                    out.append((srec["id"], "down"))
        return out

    plan = {"bars": 0, "fut": None, "cash_edge_day": None}

    def directed_ops(context, phase):
        """directed multi-step scenarios, fixed per run (they need a specific sequence a random script rarely produces)"""
        import rqalpha.api as api
        env = Environment.get_instance()
        out = []
        if phase == "AUC" and plan.get("generic") and plan["fut"] and plan["bars"] == 1 and reseed_key is None:
            # second day's auction: yesterday's 2 lots + 3 lots opened at the open; then through the generic submit_order a CLOSE of all 5
            # and a CLOSE_TODAY of today's 3, both priced to rest in the auction and to fill on the day bar — together more than is held
            oid, side = plan["fut"]
            frec = next(x for x in S["futures"] if x["id"] == oid)
            try:
                bar = frec["bars"].get(S["cal"].index(env.trading_dt.date()))
            except ValueError:
                bar = None
            if bar is not None and bar[5] >= 20 and ((side == "long" and bar[2] >= bar[1] + 2) or (side == "short" and bar[2] <= bar[1] - 2)):
                def fg(call, before, oid=oid, side=side, lim=float(round((bar[1] + bar[2]) / 2))):
                    call.update(api="plan_future_generic_close", args=(oid, side, lim))
                    r0 = (api.buy_open if side == "long" else api.sell_open)(oid, 3)
                    cside = SIDE.SELL if side == "long" else SIDE.BUY
                    r1 = api.submit_order(oid, 5, cside, price=lim, position_effect=POSITION_EFFECT.CLOSE)
                    r2 = api.submit_order(oid, 3, cside, price=lim, position_effect=POSITION_EFFECT.CLOSE_TODAY)
                    return [r0, r1, r2]
                out.append(fg)
            return out
        if phase == "AUC" and plan.get("typed_double") and plan["fut"] and plan["bars"] == 1 and reseed_key is None:
            # second day's auction: yesterday's 2 lots; a limit close of both, priced to rest in the auction and to fill on the day bar, then a
            # market close of 2 more: nothing is left to close, the second must be refused
            oid, side = plan["fut"]
            frec = next(x for x in S["futures"] if x["id"] == oid)
            try:
                bar = frec["bars"].get(S["cal"].index(env.trading_dt.date()))
            except ValueError:
                bar = None
            if bar is not None and bar[5] >= 20 and ((side == "long" and bar[2] >= bar[1] + 2) or (side == "short" and bar[2] <= bar[1] - 2)):
                def ft(call, before, oid=oid, side=side, lim=float(round((bar[1] + bar[2]) / 2))):
                    call.update(api="plan_future_double_close", args=(oid, side, lim))
                    close_fn = api.sell_close if side == "long" else api.buy_close
                    r1 = close_fn(oid, 2, price_or_style=LimitOrder(lim))
                    r2 = close_fn(oid, 2)
                    return [r1, r2]
                out.append(ft)
        if phase == "AUC" and plan.get("two_closes") and plan["fut"] and plan["bars"] == 1 and reseed_key is None:
            # second day's auction: yesterday's 2 lots + 3 lots opened at the open; then TWO limit closes of 2 lots each, both created before either fills (they rest
            # in the auction and fill one after the other on the day bar): the first uses up yesterday's lots, the second closes lots opened TODAY (close-today fee)
            oid, side = plan["fut"]
            frec = next(x for x in S["futures"] if x["id"] == oid)
            try:
                bar = frec["bars"].get(S["cal"].index(env.trading_dt.date()))
            except ValueError:
                bar = None
            if bar is not None and bar[5] >= 20 and ((side == "long" and bar[2] >= bar[1] + 2) or (side == "short" and bar[2] <= bar[1] - 2)):
                def f2t(call, before, oid=oid, side=side, lim=float(round((bar[1] + bar[2]) / 2))):
                    call.update(api="plan_future_two_resting_closes", args=(oid, side, lim))
                    r0 = (api.buy_open if side == "long" else api.sell_open)(oid, 3)
                    close_fn = api.sell_close if side == "long" else api.buy_close
                    r1 = close_fn(oid, 2, price_or_style=LimitOrder(lim))
                    r2 = close_fn(oid, 2, price_or_style=LimitOrder(lim))
                    return [r0, r1, r2]
                out.append(f2t)
            return out
        # two auction limit orders on one instrument that both rest through the auction and both fill on the day bar (one matching pass)
        if S.get("_trade_handler_acts") and phase == "AUC" and stocks and "STOCK" in context.portfolio.accounts and reseed_key is None:
            try:
                di2 = S["cal"].index(env.trading_dt.date())
            except ValueError:
                di2 = None
            plan["pair"] = None
            for srec in (S["stocks"] if di2 is not None else []):
                bar = srec["bars"].get(di2)
                if srec["id"] in stocks and bar is not None and bar[2] <= bar[1] - 0.04 and bar[5] * cfgk["sim"].get("volume_percent", 0.25) >= 400 \
                        and context.portfolio.accounts["STOCK"].cash > 450 * bar[1] and srnd.random() < 0.6:
                    def f11(call, before, oid=srec["id"], lim=round((bar[1] + bar[2]) / 2, 2)):
                        call.update(api="plan_two_resting", args=(oid, lim))
                        a = api.order_shares(oid, 100, price_or_style=LimitOrder(lim))      # rests in the auction (limit below the open)
                        if a is not None and not a.is_final():
                            plan["pair"] = a.order_id
                        b = api.order_shares(oid, 200)                                      # marketable at the open
                        plan["pair"] = None
                        return [a, b]
                    out.append(f11)
                    break
        # two auction limit orders on two instruments, each larger than its auction volume cap: both are partly filled in the auction and
        # both remainders rest in the regular book, where one matching pass at the day bar reaches them one after the other
        if S.get("_trade_handler_acts") and phase == "AUC" and len(stocks) >= 2 and "STOCK" in context.portfolio.accounts and reseed_key is None:
            try:
                di3 = S["cal"].index(env.trading_dt.date())
            except ValueError:
                di3 = None
            plan["pair_bar"] = None
            pct3 = cfgk["sim"].get("volume_percent", 0.25)
            cands = []
            for srec in (S["stocks"] if di3 is not None else []):
                bar = srec["bars"].get(di3)
                if srec["id"] in stocks and bar is not None and bar[7] == bar[7] and 200 <= round(bar[5] * pct3) <= 20000 and bar[1] < bar[7] and bar[2] < bar[7] and srec["lot"] == 100:
                    cands.append((srec["id"], int(round(bar[5] * pct3)) // 100 * 100, bar[7]))
            need = sum(2.2 * c * lu for _, c, lu in cands[:2])
            if len(cands) >= 2 and cfgk["sim"].get("volume_limit", True) and context.portfolio.accounts["STOCK"].cash > need and srnd.random() < 0.7:
                def f12(call, before, cands=cands[:2]):
                    call.update(api="plan_two_partial", args=tuple((c[0], 2 * c[1], c[2]) for c in cands))
                    a = api.order_shares(cands[0][0], 2 * cands[0][1], price_or_style=LimitOrder(cands[0][2]))
                    b = api.order_shares(cands[1][0], 2 * cands[1][1], price_or_style=LimitOrder(cands[1][2]))
                    if a is not None and b is not None and not a.is_final() and not b.is_final():
                        plan["pair_bar"] = (a.order_id, b.order_id)
                    return [a, b]
                out.append(f12)
        # an auction limit order that rests through the auction and fills on the day bar, then a bar order on the same instrument
        if S.get("_c06_plans") and stocks and "STOCK" in context.portfolio.accounts and reseed_key is None:
            try:
                di = S["cal"].index(env.trading_dt.date())
            except ValueError:
                di = None
            pct = cfgk["sim"].get("volume_percent", 0.25)
            if phase == "AUC" and di is not None:
                plan["rest"] = None
                for srec in S["stocks"]:
                    bar = srec["bars"].get(di)
                    if srec["id"] in stocks and bar is not None and bar[2] <= bar[1] - 0.04 and 300 <= round(bar[5] * pct) <= 20000 and srnd.random() < 0.6:
                        cap = int(round(bar[5] * pct))
                        q = max(100, int(cap * 0.7) // 100 * 100)
                        lim = round((bar[1] + bar[2]) / 2, 2)
                        if context.portfolio.accounts["STOCK"].cash > 2.5 * cap * bar[1]:
                            def f8(call, before, oid=srec["id"], q=q, lim=lim):
                                call.update(api="order_shares", args=(oid, q, lim))
                                return api.order_shares(oid, q, price_or_style=LimitOrder(lim))
                            out.append(f8)
                            plan["rest"] = (srec["id"], di, cap)
                            break
            elif phase == "BAR" and plan.get("rest") and plan["rest"][1] == di:
                oid, _, cap = plan["rest"]
                plan["rest"] = None

                def f9(call, before, oid=oid, q=max(100, cap // 100 * 100)):
                    call.update(api="order_shares", args=(oid, q, None))
                    return api.order_shares(oid, q)
                out.append(f9)
        if phase != "BAR":
            return out
        plan["bars"] += 1
        day = plan["bars"]
        if S.get("_sell_on_payable") and "STOCK" in context.portfolio.accounts and reseed_key is None:
            # on the payable day of a dividend of a held stock: sell the WHOLE holding — with reinvestment on, the shares bought this morning are today's purchase (T+1)
            d8_ = B.d8(env.trading_dt.date())
            for oid_ in stocks:
                if any(r_[3] == d8_ for r_ in S["div"].get(oid_, [])):
                    held_ = context.portfolio.accounts["STOCK"].get_position(oid_, POSITION_DIRECTION.LONG).quantity
                    if held_ > 0:
                        def fsp(call, before, oid_=oid_, held_=held_):
                            call.update(api="order_shares", args=(oid_, -held_, None))
                            return api.order_shares(oid_, -held_)
                        out.append(fsp)
        if reseed_key is not None:
            plan["fut"], plan["cash_edge_day"] = (), 0      # a resumable (stateless) strategy has no multi-day plan
        if plan["fut"] is None:
            plan["fut"] = (srnd.choice(futs), srnd.choice(["long", "short"])) if (futs and "FUTURE" in context.portfolio.accounts and srnd.random() < 0.6) else ()
            if S.get("_fut_plan") and futs and "FUTURE" in context.portfolio.accounts:
                plan["fut"] = (futs[0], srnd.choice(["long", "short"]))
            plan["generic"] = bool(S.get("_plan_generic_close")) and srnd.random() < 0.35
            plan["ct_twice"] = (not plan["generic"]) and srnd.random() < 0.4
            plan["typed_double"] = bool(S.get("_plan_generic_close")) and (not plan["generic"]) and (not plan["ct_twice"]) and srnd.random() < 0.6
            plan["two_closes"] = (not plan["generic"]) and (not plan["ct_twice"]) and (not plan["typed_double"]) and srnd.random() < 0.5
            if S.get("_fut_plan") == "two_closes":
                plan["generic"] = plan["ct_twice"] = plan["typed_double"] = False      # directed: two resting closes, the second reaches into today's lots
                plan["two_closes"] = True
            if S.get("_fut_plan") == "split_close":
                plan["generic"] = plan["ct_twice"] = plan["typed_double"] = plan["two_closes"] = False      # directed: the split close whose first part is refused
            plan["cash_edge_day"] = srnd.randrange(1, 5) if (stocks and "STOCK" in context.portfolio.accounts and srnd.random() < 0.5) else 0
        if plan["fut"]:
            oid, side = plan["fut"]
            open_fn, close_fn = (api.buy_open, api.sell_close) if side == "long" else (api.sell_open, api.buy_close)
            if day == 1:
                def f1(call, before, oid=oid, side=side, open_fn=open_fn):
                    call.update(api="plan_future_open", args=(oid, side, 2))
                    return [open_fn(oid, 2)]
                out.append(f1)
            elif day == 2 and (plan.get("generic") or plan.get("typed_double") or plan.get("two_closes")):
                pass
            elif day == 2 and plan.get("ct_twice"):
                def f2c(call, before, oid=oid, side=side, open_fn=open_fn, close_fn=close_fn):
                    # yesterday's 2 lots + 3 lots opened now; then close-today 2 lots twice: the second must be cut down to what is left of TODAY's lots
                    call.update(api="plan_future_close_today_twice", args=(oid, side))
                    r0 = open_fn(oid, 3)
                    r1 = close_fn(oid, 2, close_today=True)
                    r2 = close_fn(oid, 2, close_today=True)
                    return [r0, r1, r2]
                out.append(f2c)
            elif day == 2:
                def f2(call, before, oid=oid, side=side, open_fn=open_fn, close_fn=close_fn):
                    # yesterday's 2 lots + 1 lot opened now; a resting close of 2 lots commits the old part; then close 3: the API splits it
                    # into CLOSE 2 (refused: nothing closable is left of the old part) + CLOSE_TODAY 1 (must still be submitted)
                    call.update(api="plan_future_split_close", args=(oid, side))
                    price = env.get_last_price(oid)
                    far = float(round(price * (1.03 if side == "long" else 0.97)))
                    if plan.setdefault("split_variant", srnd.random() < 0.5):
                        # variant: 3 lots opened now; a resting close of 2; then a RESTING close of 5: CLOSE 2 is accepted (3 lots are still closable) and must count
                        # before CLOSE_TODAY 3 is judged (only 1 lot is left): the second part is refused
                        call["args"] = (oid, side, "both_rest")
                        r0 = open_fn(oid, 3)
                        r1 = close_fn(oid, 2, price_or_style=LimitOrder(far))
                        r2 = close_fn(oid, 5, price_or_style=LimitOrder(far))
                        return [r0, r1, r2]
                    r0 = open_fn(oid, 1)
                    r1 = close_fn(oid, 2, price_or_style=LimitOrder(far))
                    r2 = close_fn(oid, 3)
                    return [r0, r1, r2]
                out.append(f2)
        mm_ = (cfgk.get("base_extra") or {}).get("margin_multiplier", 1)
        if futs and "FUTURE" in context.portfolio.accounts and mm_ != 1 and day == 3 and reseed_key is None:
            def f6(call, before, oid=futs[0]):
                # an opening futures order whose margin WITH the configured margin multiplier exceeds the available cash (and without it would not)
                frec = next(x for x in S["futures"] if x["id"] == oid)
                price = env.get_last_price(oid)
                cash = context.portfolio.accounts["FUTURE"].cash
                call.update(api="plan_future_cash_edge", args=(oid,))
                unit = price * frec["mult"] * frec["info"]["margin_rate"]
                if not (price == price and price > 0 and cash > 3 * unit * mm_):
                    return []
                q = int(cash / (unit * mm_)) + 1
                return [api.buy_open(oid, q)]
            out.append(f6)
        if futs and "FUTURE" in context.portfolio.accounts and day == 4 and reseed_key is None:
            # a MARKET opening order whose margin the available cash covers but whose margin + estimated fee it does not: must be refused.
            # Two calls: a withdrawal that leaves margin + half the fee, then the order.
            edge = {}

            def f6w(call, before, oid=futs[-1]):
                frec = next(x for x in S["futures"] if x["id"] == oid)
                price = env.get_last_price(oid)
                cash = context.portfolio.accounts["FUTURE"].cash
                q = 2
                info = frec["info"]
                cm = cfgk["cost"].get("futures_commission_multiplier", 1)
                fee = (price * frec["mult"] * q * info["open_commission_ratio"] if info["commission_type"] == "by_money" else q * info["open_commission_ratio"]) * cm
                target = price * frec["mult"] * info["margin_rate"] * mm_ * q + 0.5 * fee
                if not (price == price and price > 0 and fee > 0.02 and cash > target + 1):
                    call.update(api="plan_future_fee_edge_skipped", args=(oid,))
                    return []
                amt = round(cash - target, 2)
                call.update(api="withdraw", args=("FUTURE", amt, 0))
                api.withdraw("FUTURE", amt)
                edge["go"] = (oid, q)
                return []

            def f6c(call, before):
                call.update(api="plan_future_fee_edge", args=edge.get("go", ()))
                if not edge.get("go"):
                    return []
                return [api.buy_open(edge["go"][0], edge["go"][1])]
            out.append(f6w)
            out.append(f6c)
        if plan["cash_edge_day"] and day == plan["cash_edge_day"]:
            def f3(call, before):
                # a resting limit buy reserves about half of the available cash; a second purchase of about 70% of it must be refused
                oid = srnd.choice(stocks)
                price = env.get_last_price(oid)
                cash = context.portfolio.accounts["STOCK"].cash
                call.update(api="plan_cash_edge", args=(oid,))
                if not (price == price and price > 0 and cash > 20 * price * 100):
                    return []
                lot = 100
                q1 = int(0.5 * cash / price) // lot * lot
                q2 = int(0.7 * cash / price) // lot * lot
                r1 = api.order_shares(oid, q1, price_or_style=LimitOrder(round(price * 0.985, 2)))
                r2 = api.order_shares(oid, q2, price_or_style=LimitOrder(round(price * 0.985, 2)))
                return [r1, r2]
            out.append(f3)
            if S.get("_c15_plans"):
                def f3c(call, before):
                    # ... then a share-based purchase that costs more than the AVAILABLE cash but less than available + reserved cash
                    acc_ = context.portfolio.accounts["STOCK"]
                    oid = srnd.choice(stocks)
                    price = env.get_last_price(oid)
                    if not (price == price and price > 0 and acc_.frozen_cash > 0 and acc_.cash > 5 * price * 100):
                        raise StopIteration
                    q = int((acc_.cash + 0.5 * acc_.frozen_cash) / price) // 100 * 100
                    call.update(api="order_shares", args=(oid, q, None))
                    return api.order_shares(oid, q)
                out.append(f3c)
        # a value-based sale while a partly filled limit sale of the same stock is still resting
        if S.get("_c15_plans") and "STOCK" in context.portfolio.accounts:
            for o_ in env.broker.get_open_orders():
                if o_.order_book_id in stocks and o_.side == SIDE.SELL and o_.filled_quantity > 0 and o_.unfilled_quantity > 0:
                    def f13(call, before, oid=o_.order_book_id, kind=srnd.choice(["value", "target"])):
                        if kind == "value":
                            call.update(api="order_value", args=(oid, -10000000.0, None))
                            return api.order_value(oid, -10000000.0)
                        call.update(api="order_target_percent", args=(oid, 0, None))
                        return api.order_target_percent(oid, 0)
                    out.append(f13)
                    break
        # a purchase exactly as large as an odd-lot holding (the lot-rounding exemption is for selling out, not for buying)
        if "STOCK" in context.portfolio.accounts:
            for oid in stocks:
                pos = context.portfolio.accounts["STOCK"].get_position(oid, POSITION_DIRECTION.LONG)
                lot = 1 if oid.startswith("688") else 100
                q = pos.quantity
                if q > 0 and ((lot == 100 and q % 100 != 0) or (lot == 1 and q < 200)) and srnd.random() < 0.5:
                    def f5(call, before, oid=oid, q=q, to=(srnd.random() < 0.3)):
                        if to:
                            call.update(api="order_to", args=(oid, 2 * q, None))
                            return api.order_to(oid, 2 * q)
                        call.update(api="order_shares", args=(oid, q, None))
                        return api.order_shares(oid, q)
                    out.append(f5)

                    def f5b(call, before, oid=oid):
                        # ... then a value-based sale far larger than the holding: capped at the closable part, which (T+1) is the odd lot
                        call.update(api="order_value", args=(oid, -10000000.0, None))
                        return api.order_value(oid, -10000000.0)
                    out.append(f5b)
        # a holding bought shortly before its share conversion (so that it is still there when the predecessor delists)
        if S["trf"] and phase == "BAR" and "STOCK" in context.portfolio.accounts and reseed_key is None:
            for pred in S["trf"]:
                prec = next((x for x in S["stocks"] if x["id"] == pred), None)
                if prec is not None and prec["delisted"] is not None and env.trading_dt.date() in S["cal"]:
                    di = S["cal"].index(env.trading_dt.date())
                    held_now = context.portfolio.accounts["STOCK"].get_position(pred, POSITION_DIRECTION.LONG).quantity
                    if S["cal"].index(prec["delisted"]) - 4 <= di <= S["cal"].index(prec["delisted"]) - 2 and held_now == 0:
                        def f6(call, before, oid=pred, q=300 + 400 * (di % 3)):
                            call.update(api="order_shares", args=(oid, q, None))
                            return api.order_shares(oid, q)
                        out.append(f6)
        # value-based sales of exact multiples of a price like 11.3 (3390 / 11.3 is 300 only under the module's 10-digit decimal context)
        if S.get("_decsell") and stocks and "STOCK" in context.portfolio.accounts:
            def f10(call, before, oid=stocks[0], v=-round(300 * S["_decsell"], 2)):
                call.update(api="order_value", args=(oid, v, None))
                return api.order_value(oid, v)
            out.append(f10)

            def f10b(call, before, oid=stocks[0], q=(0.7 + 0.1) * 1000):
                # 799.9999999999999 shares: eight lots under the module's half-even 10-digit decimal context (7 if anything left the context rounding down)
                call.update(api="order_shares", args=(oid, q, None))
                return api.order_shares(oid, q)
            out.append(f10b)
        # order_target_portfolio with the caller's limit prices (plain price, LimitOrder, or an (open, close) pair)
        if S.get("_otp") and stocks and "STOCK" in context.portfolio.accounts and reseed_key is None and srnd.random() < 0.2:
            picks = srnd.sample(stocks, min(len(stocks), srnd.choice([1, 2])))
            targets, lim = {}, {}
            for oid in picks:
                targets[oid] = srnd.choice([0.0, 0.1, 0.2, 0.4])
                price = env.get_last_price(oid)
                if price == price and price > 0 and srnd.random() < 0.7:
                    lo = round(price * srnd.choice([0.97, 0.99, 1.0, 1.01, 1.03]), 2)
                    hi = round(price * srnd.choice([0.97, 0.99, 1.0, 1.01, 1.03]), 2)
                    lim[oid] = (srnd.choice(["price", "style", "pair"]), lo, hi)

            def f7(call, before, targets=targets, lim=lim):
                styles = {o_: (lo if form == "price" else LimitOrder(lo) if form == "style" else (LimitOrder(lo), LimitOrder(hi))) for o_, (form, lo, hi) in lim.items()}
                call.update(api="order_target_portfolio", args=(targets, {o_: ((lo, hi) if form == "pair" else (lo, lo)) for o_, (form, lo, hi) in lim.items()}))
                return api.order_target_portfolio(targets, styles)
            out.append(f7)
        # the whole holding sold on the ex-dividend date (receivable still pending)
        today8 = B.d8(env.trading_dt.date())
        if "STOCK" in context.portfolio.accounts:
            for oid in stocks:
                for r in S["div"].get(oid, []):
                    if r[2] == today8 and r[3] > today8:
                        pos = context.portfolio.accounts["STOCK"].get_position(oid, POSITION_DIRECTION.LONG)
                        if pos.quantity > 0 and pos.closable > 0 and srnd.random() < 0.6:
                            def f4(call, before, oid=oid, q=pos.closable):
                                call.update(api="order_shares", args=(oid, -q, None))
                                return api.order_shares(oid, -q)
                            out.append(f4)
        return out

    def ops(context, phase):
        import rqalpha.api as api
        env = Environment.get_instance()
        tr.stats["_phase"] = phase
        if reseed_key is not None:      # decisions are a function of (key, clock, phase) only: the strategy has no hidden state (resumable)
            srnd.seed("%s|%s|%s" % (reseed_key, env.calendar_dt, phase))
        tr.rec.attach(accounts_snap(context), pf_snap(context), [o.order_id for o in env.broker.get_open_orders()])      # the state the callback starts from
        n_ops = srnd.choice([0, 0, 1, 1, 2, 3, 5]) if intensity >= 1 else srnd.choice([0, 0, 0, 1, 2])
        forced_ops = directed_ops(context, phase)
        for it in range(len(forced_ops) + n_ops):
            forced = forced_ops[it] if it < len(forced_ops) else None
            r = srnd.random()
            call = {"phase": phase, "when": env.calendar_dt, "api": None, "args": None, "orders": [], "exc": None}
            before = accounts_snap(context)
            pf_before = pf_snap(context)
            n_val0 = len(tr.rec.validations)
            n_ev0 = len(tr.events)
            n_in0 = len(tr.rec.inputs)
            pos_info = {}
            try:
                for oid_ in stocks:
                    p_ = context.portfolio.accounts["STOCK"].get_position(oid_, POSITION_DIRECTION.LONG) if "STOCK" in context.portfolio.accounts else None
                    if p_ is not None:
                        pos_info[oid_] = {"qty": p_.quantity, "closable": p_.closable, "market_value": float(p_.market_value), "price": float(env.get_last_price(oid_)),
                                           # what can be closed, from first principles: the holding minus the unfilled part of every resting sale minus today's purchases under T+1
                                           "closable_indep": p_.quantity - sum(o_.unfilled_quantity for o_ in env.broker.get_open_orders() if o_.order_book_id == oid_ and o_.side == SIDE.SELL)
                                           - (getattr(p_, "_non_closable", 0) if cfgk["accounts_mod"].get("stock_t1", True) else 0)}
                for oid_ in futs:
                    if "FUTURE" in context.portfolio.accounts:
                        a_ = context.portfolio.accounts["FUTURE"]
                        l_, s_ = a_.get_position(oid_, POSITION_DIRECTION.LONG), a_.get_position(oid_, POSITION_DIRECTION.SHORT)
                        pos_info[oid_] = {"long": {"qty": l_.quantity, "old": l_._old_quantity, "closable": l_.closable, "today_closable": l_.today_closable},
                                          "short": {"qty": s_.quantity, "old": s_._old_quantity, "closable": s_.closable, "today_closable": s_.today_closable},
                                          "price": float(env.get_last_price(oid_))}
            except Exception as ex_:
                pos_info = {"error": repr(ex_)}
            open_before = [o.order_id for o in env.broker.get_open_orders()]
            res = None
            try:
                if forced is not None:
                    res = forced(call, before)
                elif phase == "AUC" and stocks and "STOCK" in before and srnd.random() < 0.2:
                    # directed combination: a limit order in the auction larger than one round of the volume cap, priced to fill
                    # in the auction AND in the day bar (an order completed by several fills)
                    oid = srnd.choice(stocks)
                    srec = next(x for x in S["stocks"] if x["id"] == oid)
                    di = S["cal"].index(env.trading_dt.date())
                    bar = srec["bars"].get(di)
                    pct = cfgk["sim"].get("volume_percent", 0.25)
                    if bar is not None and bar[5] * pct >= 200 and bar[7] == bar[7]:
                        cap = int(round(bar[5] * pct)) // 100 * 100
                        q = min(cap + srnd.choice([100, cap // 2 // 100 * 100, cap - 100 if cap > 100 else 100, cap]), 20000)
                        held = next((h["long"]["qty"] for h in before["STOCK"]["holdings"] if h["id"] == oid), 0)
                        sell = held >= q and srnd.random() < 0.4
                        lim = bar[8] if sell else bar[7]
                        call.update(api="combo_auction_two_fill", args=(oid, -q if sell else q, lim))
                        res = api.order_shares(oid, -q if sell else q, price_or_style=LimitOrder(lim))
                elif phase == "AUC" and stocks and "STOCK" in before and srnd.random() < 0.08:
                    # directed: an order placed in the auction that cannot fill there, cancelled at once (or twice)
                    oid = srnd.choice(stocks)
                    price = env.get_last_price(oid)
                    if price == price and price > 0:
                        call.update(api="combo_auction_cancel", args=(oid,))
                        o = api.order_shares(oid, 100, price_or_style=LimitOrder(round(price * 0.97, 2)))
                        res = [o] if o is not None else []
                        if o is not None:
                            api.cancel_order(o)
                            if srnd.random() < 0.3:
                                api.cancel_order(o)
                elif phase == "BAR" and stocks and "STOCK" in before and srnd.random() < 0.25 and near_limit_today(env):
                    # directed: trade on the adverse side when today's close is a tick or two inside the band (slippage must stay inside)
                    oid, side = srnd.choice(near_limit_today(env))
                    held = next((h["long"]["qty"] for h in before["STOCK"]["holdings"] if h["id"] == oid), 0)
                    amt = 100 if side == "up" else -min(held, srnd.choice([100, held]))
                    if amt != 0:
                        call.update(api="order_shares", args=(oid, amt, None))
                        res = api.order_shares(oid, amt)
                elif S.get("_probe_validators") and stocks and "STOCK" in before and srnd.random() < 0.2:
                    # the validator chain asked directly (Environment.can_submit_order) about an order the order APIs would not even create:
                    # instruments before their listing / on or after their delisting date have no market data
                    from rqalpha.model.order import Order
                    oid = srnd.choice(stocks)
                    srec = next(x for x in S["stocks"] if x["id"] == oid)
                    di = S["cal"].index(env.trading_dt.date())
                    known = [srec["bars"][j] for j in sorted(srec["bars"]) if j <= di] or [srec["bars"][min(srec["bars"])]]
                    lim = known[-1][2]
                    o = Order.__from_create__(oid, 100, SIDE.BUY, LimitOrder(lim), POSITION_EFFECT.OPEN)
                    call.update(api="probe_validators", args=(oid, 100, lim))
                    tr.probe_orders.add(o.order_id)
                    env.can_submit_order(o)
                elif S.get("_probe_validators") and stocks and "STOCK" in before and srnd.random() < 0.25 and \
                        any(next(x for x in S["stocks"] if x["id"] == i_)["bars"].get(S["cal"].index(env.trading_dt.date())) is None for i_ in stocks):
                    # the generic submit_order API with a LIMIT price on a day on which the instrument has no bar (no valid price): nothing to trade against
                    di_ = S["cal"].index(env.trading_dt.date())
                    oid = next(i_ for i_ in stocks if next(x for x in S["stocks"] if x["id"] == i_)["bars"].get(di_) is None)
                    srec_ = next(x for x in S["stocks"] if x["id"] == oid)
                    known_ = [srec_["bars"][j] for j in sorted(srec_["bars"]) if j <= di_] or [srec_["bars"][min(srec_["bars"])]]
                    lim_ = known_[-1][2]
                    call.update(api="submit_order_no_bar", args=(oid, 100, lim_))
                    r_ = api.submit_order(oid, 100, SIDE.BUY, price=lim_, position_effect=POSITION_EFFECT.OPEN)
                    res = [r_] if r_ is not None else []
                elif r < 0.05 and stocks and "STOCK" in before and before["STOCK"]["holdings"]:
                    # directed combination: buy today, rest a sell above the market, then sell (about) the whole holding
                    h = srnd.choice(before["STOCK"]["holdings"])
                    oid, held = h["id"], h["long"]["qty"]
                    price = env.get_last_price(oid)
                    if held > 0 and price == price and price > 0:
                        call.update(api="combo_buy_rest_sell", args=(oid, held))
                        res = []
                        lot = 100 if not oid.startswith("688") else 1
                        if held % lot != 0 or srnd.random() < 0.2:
                            # odd-lot (or whole) liquidation followed by a large buy in the same bar (shares the volume cap)
                            oa = api.order_shares(oid, -held)
                            ob = api.order_shares(oid, srnd.choice([100000, 5000, 1000]))
                            res = [o for o in (oa, ob) if o is not None]
                            raise StopIteration
                        o1 = api.order_shares(oid, srnd.choice([100, 300, 500]))
                        o2 = api.order_shares(oid, -max(100, (held // 200) * 100), price_or_style=LimitOrder(round(price * 1.03, 2)))
                        o3 = api.order_shares(oid, -srnd.choice([held, max(100, (held // 100) * 100), held + 100]))
                        res = [o for o in (o1, o2, o3) if o is not None]
                elif r < 0.09 and futs and "FUTURE" in before:
                    # directed combination on a futures position: rest a limit close, then close (about) everything / cancel twice
                    oid = srnd.choice(futs)
                    price = env.get_last_price(oid)
                    hh = next((h for h in before["FUTURE"]["holdings"] if h["id"] == oid), None)
                    if price == price and price > 0:
                        call.update(api="combo_future_close", args=(oid,))
                        res = []
                        side = srnd.choice(["long", "short"])
                        qty = hh[side]["qty"] if hh else 0
                        if qty <= 0:
                            r0 = api.buy_open(oid, srnd.choice([2, 3, 5])) if side == "long" else api.sell_open(oid, srnd.choice([2, 3, 5]))
                            res = [r0]
                        else:
                            close_fn = api.sell_close if side == "long" else api.buy_close
                            far = float(round(price * (1.02 if side == "long" else 0.98)))
                            r1 = close_fn(oid, max(1, qty // 2), price_or_style=LimitOrder(far))
                            r2 = close_fn(oid, qty)
                            res = [r1, r2]
                            oo = api.get_open_orders()
                            if oo and srnd.random() < 0.5:
                                o = srnd.choice(oo)
                                api.cancel_order(o)
                                if srnd.random() < 0.5:
                                    api.cancel_order(o)           # cancelling twice must change nothing
                elif r < 0.45 and stocks:
                    oid = srnd.choice(stocks)
                    price = env.get_last_price(oid)
                    style = None
                    if srnd.random() < 0.4 and price == price and price > 0:
                        style = LimitOrder(round(price * srnd.choice([0.97, 0.99, 1.0, 1.0, 1.01, 1.03]), 2) + (srnd.choice([0.0, 0.004, 0.006, 0.0099]) if S.get("_off_grid") else 0))
                    pos = before.get("STOCK", {"holdings": []})
                    held = next((h["long"]["qty"] for h in pos["holdings"] if h["id"] == oid), 0)
                    k = srnd.random()
                    if k < 0.45:
                        amt = srnd.choice([100, 200, 300, 1000, 5000, -100, -200, -1000, 150, -150, -99999, 100000, -held, -held, held, held + 0.5, 250.7])
                        call.update(api="order_shares", args=(oid, amt, style.get_limit_price() if style else None))
                        res = api.order_shares(oid, amt, price_or_style=style)
                    elif k < 0.6:
                        val = srnd.choice([1000, 5000, 50000, -3000, -50000, before["STOCK"]["obs"]["cash"]])
                        call.update(api="order_value", args=(oid, val, style.get_limit_price() if style else None))
                        res = api.order_value(oid, val, price_or_style=style)
                    elif k < 0.7:
                        pc = srnd.choice([0, 0.1, 0.3, 0.5, 1.0])
                        call.update(api="order_target_percent", args=(oid, pc, style.get_limit_price() if style else None))
                        res = api.order_target_percent(oid, pc, price_or_style=style)
                    elif k < 0.8:
                        tv = srnd.choice([0, 5000, 20000])
                        call.update(api="order_target_value", args=(oid, tv, style.get_limit_price() if style else None))
                        res = api.order_target_value(oid, tv, price_or_style=style)
                    elif k < 0.87:
                        lots = srnd.choice([1, 2, 10, -1, -3])
                        call.update(api="order_lots", args=(oid, lots, style.get_limit_price() if style else None))
                        res = api.order_lots(oid, lots, price_or_style=style)
                    elif k < 0.93:
                        pc = srnd.choice([0.05, 0.2, -0.1, 0.9])
                        call.update(api="order_percent", args=(oid, pc, style.get_limit_price() if style else None))
                        res = api.order_percent(oid, pc, price_or_style=style)
                    else:
                        if srnd.random() < 0.5:
                            amt = srnd.choice([100, 300, -100, 0, 250, held, -held])
                            call.update(api="order", args=(oid, amt, style.get_limit_price() if style else None))
                            res = api.order(oid, amt, price_or_style=style)
                        else:
                            amt = srnd.choice([0, 100, 2 * held, held + 100, max(0, held - 100), held // 2])
                            call.update(api="order_to", args=(oid, amt, style.get_limit_price() if style else None))
                            res = api.order_to(oid, amt, price_or_style=style)
                elif r < 0.75 and futs:
                    oid = srnd.choice(futs)
                    price = env.get_last_price(oid)
                    style = None
                    if srnd.random() < 0.4 and price == price and price > 0:
                        style = LimitOrder(float(round(price * srnd.choice([0.98, 1.0, 1.0, 1.02]))) + (srnd.choice([0.0, 0.4, 0.6, 0.15]) if S.get("_off_grid") else 0))
                    k = srnd.random()
                    if k < 0.8:
                        fn = srnd.choice(["buy_open", "sell_open", "buy_close", "sell_close"])
                        kw = {"close_today": True} if fn in ("buy_close", "sell_close") and srnd.random() < 0.3 else {}
                        q = srnd.choice([1, 2, 3, 5, 10] + ([0.5, 0.3, 2.5, 1.9] if S.get("_frac_fut") else []))
                        call.update(api=fn, args=(oid, q, style.get_limit_price() if style else None, kw.get("close_today", False)))
                        res = getattr(api, fn)(oid, q, price_or_style=style, **kw)
                    elif k < 0.9:
                        q = srnd.choice([1, -1, 3, -3, 6, -6] + ([0.5, -0.4, 2.5, -1.9] if S.get("_frac_fut") else []))
                        call.update(api="order", args=(oid, q, style.get_limit_price() if style else None))
                        res = api.order(oid, q, price_or_style=style)
                    else:
                        q = srnd.choice([0, 2, -2, 4])
                        call.update(api="order_to", args=(oid, q, style.get_limit_price() if style else None))
                        res = api.order_to(oid, q, price_or_style=style)
                elif r < 0.85:
                    oo = api.get_open_orders()
                    call.update(api="cancel_order", args=())
                    if oo:
                        o = srnd.choice(oo)
                        call["args"] = (o.order_id,)
                        api.cancel_order(o)
                elif r < 0.92:
                    t = srnd.choice(list(context.portfolio.accounts))
                    amt = srnd.choice([1000.0, 5000.0])
                    days = srnd.choice([0, 0, 1, 2])
                    call.update(api="deposit", args=(t, amt, days))
                    api.deposit(t, amt, days)
                else:
                    t = srnd.choice(list(context.portfolio.accounts))
                    amt = srnd.choice([500.0, 2000.0])
                    fin = cfgk["accounts_mod"].get("financing_rate", 0)
                    if context.portfolio.accounts[t].cash >= amt and srnd.random() < 0.6:
                        call.update(api="withdraw", args=(t, amt, 0))
                        api.withdraw(t, amt)
                    elif "STOCK" in context.portfolio.accounts and srnd.random() < 0.5:
                        call.update(api="finance", args=(3000.0,))
                        api.finance(3000.0)
                    elif "STOCK" in context.portfolio.accounts and context.portfolio.accounts["STOCK"].cash_liabilities > 0 and context.portfolio.accounts["STOCK"].cash > 1000:
                        liab_ = context.portfolio.accounts["STOCK"].cash_liabilities
                        rp = min(1000.0, liab_)
                        if context.portfolio.accounts["STOCK"].cash > liab_ + 600 and srnd.random() < 0.4:
                            rp = round(liab_ + srnd.choice([0.01, 100.0, 500.0]), 2)      # more than is owed: only what is owed may leave the account
                        call.update(api="repay", args=(rp,))
                        api.repay(rp)
            except StopIteration:
                pass
            except Exception as ex:
                call["exc"] = (type(ex).__name__, str(ex)[:200])
            if call["api"] is None:
                continue
            call["val_range"] = (n_val0, len(tr.rec.validations))
            call["ev_range"] = (n_ev0, len(tr.events))          # what was published while the call ran (fills of this call's and of resting orders)
            call["in_range"] = (n_in0, len(tr.rec.inputs))      # the inputs of the free-running world this call amounts to
            call["pos_before"] = pos_info
            def flat(x):
                if isinstance(x, (list, tuple)):
                    for y in x:
                        for z in flat(y):
                            yield z
                else:
                    yield x
            if isinstance(res, (list, tuple)) and any(isinstance(y, (list, tuple)) for y in res):
                tr.stats["api_returned_nested_list:" + str(call["api"])] += 1
            olist = list(flat(res)) if res is not None else []
            if any(o is None for o in olist):
                tr.stats["api_returned_list_with_None"] += 1
            olist = [o for o in olist if o is not None]
            for o in olist:
                tr.orders[o.order_id] = o
            call["orders"] = [order_snap(o) for o in olist]
            call["open_after"] = [o.order_id for o in env.broker.get_open_orders()]
            call["open_before"] = open_before
            call["before"] = before
            call["after"] = accounts_snap(context)
            call["pf_after"] = pf_snap(context)
            call["pf_before"] = pf_before
            tr.calls.append(call)
            tr.events.append(("CALL", call))
            tr.stats["calls"] += 1
            tr.rec.attach(call["after"], call["pf_after"], call["open_after"])

    def pos_roundtrip(context):
        env = Environment.get_instance()
        for t, a in context.portfolio.accounts.items():
            for pos in list(a.get_positions()):
                try:
                    clone = type(pos)(pos.order_book_id, pos.direction)
                    clone.set_state(pos.get_state())
                    a0 = (pos.quantity, pos.closable, pos.today_closable, pos._old_quantity)
                    a1 = (clone.quantity, clone.closable, clone.today_closable, clone._old_quantity)
                except Exception as ex:
                    a0, a1 = None, repr(ex)
                tr.stats["position_roundtrips"] += 1
                if a0 != a1:
                    tr.events.append(("POS_ROUNDTRIP", {"cal": env.calendar_dt, "book": pos.order_book_id, "direction": pos.direction.name, "acct": t, "live": a0, "restored": a1}))

    def with_roundtrip(f):
        def g(c, b):
            f(c, b)
            if S.get("_pos_roundtrip"):
                pos_roundtrip(c)
        return g
    handlers = {"init": init, "open_auction": with_roundtrip(lambda c, b: ops(c, "AUC")), "handle_bar": with_roundtrip(lambda c, b: ops(c, "BAR"))}

    def before_trading(context):
        # an ordinary strategy looks at prices before the open (previous close): the reads themselves must not change what the auction sees
        env = Environment.get_instance()
        seen = {}
        for oid_ in stocks + futs:
            try:
                seen[oid_] = float(env.get_last_price(oid_))
            except Exception as ex_:
                seen[oid_] = repr(ex_)
        tr.events.append(("BEFORE_TRADING_CB", {"cal": env.calendar_dt, "last": seen}))
    handlers["before_trading"] = before_trading

    def after_trading(context):
        env = Environment.get_instance()
        # what the strategy's own after_trading callback sees: the market is closed, nothing may rest any more
        tr.events.append(("AFTER_TRADING_CB", {"cal": env.calendar_dt, "open": [(o.order_id, o.status.name) for o in env.broker.get_open_orders()],
                                               "live": [(i_, o.status.name) for i_, o in tr.orders.items() if not o.is_final()]}))
        if S.get("_pf_roundtrip"):
            env.portfolio.set_state(env.portfolio.get_state())
            tr.stats["portfolio_restores_in_place"] += 1
    handlers["after_trading"] = after_trading
    if script is not None:
        handlers = script(tr, handlers)
    with recorder.instrument(tr.rec):
        kw = dict(cfgk)
        if analyser:
            kw["analyser"] = analyser
        tr.result, tr.exc = runner.run_real(S, kw, handlers, workaround_f19=workaround_f19)
    return tr

"""Shared driver of the trading-stream checks: generate scenarios, run the real rqalpha, step-sync the recorded Account
operations of the requested account types against the Lean model, run the requested monitors."""
import random
import vlib, bundle as B, trading, acct_sync, sync_misc, world_sync

OPS = ["apply_trade", "_on_order_pending_new", "_on_order_unsolicited_update", "_on_bar", "_on_before_trading", "_on_settlement", "deposit_withdraw", "finance_repay"]


def world_corrs(ctx):
    if getattr(ctx, "_world_corrs", None) is None:
        ctx._world_corrs = world_sync.make_corrs(ctx)
    return ctx._world_corrs


def make_corrs(ctx, ops=OPS, prefix="Account."):
    corrs = {n: ctx.corr(prefix + n, "recorded calls of the real method replayed on the model from the same pre-state (all ledger fields and observers; 1e-9 relative, bit-equality counted)") for n in ops}
    corrs["chain"] = ctx.corr("no unmodelled mutation", "between two recorded operations of an account its ledger does not change (post_k = pre_{k+1})")
    return corrs


def stream(ctx, n_runs, corrs, monitors, acct_types=("STOCK", "FUTURE"), gen=None, market_opts=None, cfg_opts=None, extra_sync=None, world=True):
    wcorrs = world_corrs(ctx) if world else None
    forced = getattr(ctx, "replay_run", None)          # (run index, run seed) from a replay file: re-run exactly that scenario
    plan = [forced] if forced else None
    for k in range(n_runs if plan is None else 1):
        if plan is not None:
            k, rs = plan[0]
        else:
            rs = ctx.rnd.random()
        rnd = random.Random(rs)
        if gen is not None:
            S, cfgk = gen(rnd, k)
        else:
            S = B.gen_market(rnd, ndays=rnd.randrange(10, 26), **(market_opts(k) if market_opts else {}))
            cfgk = trading.gen_config(rnd, S, cfg_opts(k) if cfg_opts else None)
        if not cfgk["accounts"]:
            continue
        tr = trading.run_trading(rnd, S, cfgk)
        tr.run_seed, tr.run_index = rs, k
        ctx.stats["runs"] += 1
        for sk, sv in tr.stats.items():
            if not sk.startswith("_") and isinstance(sv, int):
                ctx.stats["trace." + sk] += sv
        if tr.exc is not None:
            ctx.stats["runs_ended_by_exception:" + type(tr.exc).__name__] += 1
            if len(ctx.notes) < 5:
                ctx.notes.append("run ended by %s: %s" % (type(tr.exc).__name__, str(tr.exc)[:160]))
        ix = acct_sync.Index(S, cfgk)
        ops = [op for op in tr.rec.ops if op["acct"] in acct_types]
        ctx.evaluations += len(ops)
        for op in ops:
            if not op["nested"] and op["pre"] is not None and op["post"] is not None and not acct_sync.nan_in(op["pre"]) and not acct_sync.nan_in(op["post"]):
                changed = acct_sync.diff_state(dict(op["pre"]), dict(op["post"], obs=op["pre"]["obs"]))
                if changed:
                    ctx.nontrivial(op["acct"], op["op"], tuple(sorted({c[0].split(".")[-1] for c in changed}))[:6], op["args"].get("effect"), bool(op["args"].get("order")))
        if corrs:
            want = {k: v for k, v in corrs.items() if k != "chain"}
            acct_sync.run_sync(ctx, want, ix, ops, ctx.stats)
            if "chain" in corrs:
                for t in acct_types:
                    tops = [o for o in ops if o["acct"] == t]
                    for prev_op, op, d in acct_sync.chain_check(tops, ctx.stats):
                        if all(x[0] == "holdings" for x in d):
                            new = set(d[0][2]) - set(d[0][1])
                            post_h = {h["id"]: h for h in op["pre"]["holdings"]}
                            if set(d[0][1]) <= set(d[0][2]) and all(post_h[i]["long"]["qty"] == 0 and post_h[i]["short"]["qty"] == 0 for i in new):
                                ctx.stats["empty_holding_created_between_ops"] += 1
                                continue
                        corrs["chain"].add(False, {"between": [prev_op["op"], op["op"]], "when": str(op["when"][0]), "differences": [(p, repr(m), repr(v)) for p, m, v in d[:4]]})
                    corrs["chain"].cases += max(0, len(tops) - 1)
        if extra_sync:
            extra_sync(ctx, tr, ix)
        if wcorrs is not None:
            world_sync.run_sync(ctx, wcorrs, tr, ix)       # the free-running composed model against the whole run
        for m in monitors:
            m(ctx, tr, ix)
        ctx.stats["trades"] += len([1 for kk, _ in tr.events if kk == "TRADE"])
        ctx.stats["orders"] += len(tr.orders)
        if len(ctx.samples) < 3 and ops:
            op = next((o for o in ops if o["op"] == "apply_trade" and not o["nested"] and o["pre"]), None) or next((o for o in ops if o["pre"]), None)
            if op:
                ctx.sample({"operation": op["op"], "account": op["acct"], "when": str(op["when"][0]), "args": {kk: v for kk, v in op["args"].items() if kk != "dt"},
                            "pre": {kk: op["pre"][kk] for kk in ("total_cash", "frozen")}, "post": {kk: op["post"][kk] for kk in ("total_cash", "frozen")} if op["post"] else None})


def fresh_process_run(ctx, S, cfgk, seed, monitor_names, what):
    """one scenario in a fresh process (harness/fresh_worker.py); the monitors run there, their witnesses are re-issued here"""
    import os, pickle, subprocess, tempfile, json, vlib
    here = os.path.dirname(os.path.abspath(__file__))
    with tempfile.NamedTemporaryFile(dir="/dev/shm", suffix=".pkl", delete=False) as fh:
        pickle.dump({"S": S, "cfgk": cfgk, "seed": seed, "monitors": monitor_names}, fh)
    try:
        pr = subprocess.run(["/venv/bin/python", os.path.join(here, "fresh_worker.py"), fh.name], capture_output=True, text=True,
                            env=dict(os.environ, PYTHONPATH=vlib.REPO + ":" + here), timeout=600)
    finally:
        os.unlink(fh.name)
    if pr.returncode != 0:
        raise RuntimeError("fresh_worker failed: " + pr.stderr[-1500:])
    out = json.loads(pr.stdout.strip().splitlines()[-1])
    ctx.stats["fresh_process_runs"] += 1
    ctx.evaluations += out["evaluations"]
    for w in out["witnesses"]:
        ctx.witness(w["clause"], dict(w["sig"], fresh_process=True), "in the FIRST run of a fresh process (%s): %s" % (what, w["what"]),
                    {"seed": seed, "cfg": {k: str(v) for k, v in cfgk.items()}, "fresh_process": True})
    return out

"""Minute-frequency runs of the trading stream: minute bars are synthesised from the generated day bars (stock minute grid, a path from the
day's open to its close inside [low, high], the day's volume spread over the minutes) and served by the harness minute data source."""
import datetime
import numpy as np
import bundle as B, minute_source


def stock_minutes(d):
    return [datetime.datetime.combine(d, datetime.time(9, 30)) + datetime.timedelta(minutes=k) for k in range(1, 121)] + \
           [datetime.datetime.combine(d, datetime.time(13, 0)) + datetime.timedelta(minutes=k) for k in range(1, 121)]


def install_minutes(S, rnd):
    from rqalpha.utils.datetime_func import convert_dt_to_int
    minute_source.MIN.clear()
    for st in S["stocks"]:
        rows = []
        for i, b in sorted(st["bars"].items()):
            d14, o, c, hi, lo, v, tt, lu, ld = b
            mins = stock_minutes(S["cal"][i])
            n = len(mins)
            k_hi, k_lo = sorted(rnd.sample(range(1, n - 1), 2))
            if rnd.random() < 0.5:
                k_hi, k_lo = k_lo, k_hi
            for k, m in enumerate(mins):
                if v == 0:
                    p = o
                elif k == n - 1:
                    p = c
                elif k == k_hi:
                    p = hi
                elif k == k_lo:
                    p = lo
                else:
                    p = round(o + (c - o) * k / (n - 1), 2)
                    p = min(hi, max(lo, p))
                vol = float(int(v / n)) if v else 0.0
                rows.append((convert_dt_to_int(m), p, p, p, p, vol, vol * p, lu, ld))
        minute_source.MIN[st["id"]] = np.array(rows, dtype=B.SDT)

"""Harness-side mod for C19: a data source (rqalpha's BaseDataSource) that raises on demand, to inject faults inside system code:
FLAGS["history_raise"] -> history_bars raises (a fault inside an API call); FLAGS["get_bar_raise_on"] = date -> get_bar raises on that
trading day (a data look-up fault in the system's own listeners)."""
from rqalpha.interface import AbstractMod
from rqalpha.data.base_data_source import BaseDataSource

FLAGS = {}


class FaultDS(BaseDataSource):
    def get_bar(self, instrument, dt, frequency):
        d = FLAGS.get("get_bar_raise_on")
        if d is not None and dt.date() == d:
            FLAGS["get_bar_raised"] = True
            import probe_mods
            probe_mods.LOG.append(("data_fault",))
            raise KeyError("data look-up fault injected by the harness")
        return super().get_bar(instrument, dt, frequency)

    def history_bars(self, *a, **k):
        if FLAGS.get("history_raise"):
            raise KeyError("data source fault injected by the harness")
        return super().history_bars(*a, **k)


class Mod(AbstractMod):
    def start_up(self, env, mod_config):
        env.set_data_source(FaultDS(env.config.base.data_bundle_path, getattr(env.config.base, "future_info", {})))

    def tear_down(self, code, exception=None):
        pass


def load_mod():
    return Mod()

"""Step-sync correspondence for account operations: every recorded call of the real Account (pre-state, inputs, post-state)
is replayed on the Lean model (Float instance) from the same pre-state; inputs that come from market data are derived
from the SCENARIO tables (bundle), not from what the implementation looked up."""
import math, datetime
import numpy as np
import vlib, bundle as B
from vlib import f2b, b2f, of2b

REL = 1e-9


def nan_in(x):
    if isinstance(x, float):
        return x != x
    if isinstance(x, dict):
        return any(nan_in(v) for v in x.values())
    if isinstance(x, (list, tuple)):
        return any(nan_in(v) for v in x)
    return False


class Index(object):
    """instrument index and static configuration derived from the scenario"""

    def __init__(self, S, cfgk):
        self.S, self.cfgk = S, cfgk
        self.ids = {}
        self.cfg = {}
        self.stock = {s["id"]: s for s in S["stocks"]}
        self.fut = {f["id"]: f for f in S["futures"]}
        mm = (cfgk.get("base_extra") or {}).get("margin_multiplier", 1)
        for s in S["stocks"]:
            self.ids[s["id"]] = len(self.ids) + 1
            self.cfg[s["id"]] = (0, 1.0, 0.0, float(mm), 1 if s.get("tplus", 1) >= 1 else 0, int(s["lot"]) if s["board"] != "KSH" else 1)
        for f in S["futures"]:
            self.ids[f["id"]] = len(self.ids) + 1
            self.cfg[f["id"]] = (1, float(f["mult"]), float(f["info"]["margin_rate"]), float(mm), 0, 1)
        self.cal = S["cal"]
        self.cal8 = [B.d8(d) for d in self.cal]

    def cfg_toks(self, oid):
        c = self.cfg[oid]
        return [str(c[0]), f2b(c[1]), f2b(c[2]), f2b(c[3]), str(c[4]), str(c[5])]

    def day_index(self, d8v):
        return self.cal8.index(d8v)

    def prev_day8(self, d8v):
        i = self.day_index(d8v)
        return self.cal8[i - 1] if i >= 1 else self.cal8[0]

    def next_day8(self, d8v, n=1):
        i = self.day_index(d8v)
        return self.cal8[min(i + n, len(self.cal8) - 1)]

    def bar(self, oid, d8v):
        src = self.stock.get(oid) or self.fut.get(oid)
        return src["bars"].get(self.day_index(d8v))


def ser_pos(p):
    d = p["div"]
    return [str(int(p["qty"])), str(int(p["old"])), str(int(p["logical_old"])), f2b(p["avg"]), f2b(p["trade_cost"]), f2b(p["txn_cost"]), f2b(p["last"]),
            str(int(p["non_closable"]))] + (["0", "0"] if not d else [str(d[0]), f2b(d[1])])


def ser_acct(ix, s):
    t = [f2b(s["total_cash"]), f2b(s["frozen"]), f2b(s["liab"]), f2b(s["mgmt_fees"]), f2b(s["mgmt_rate"]), f2b(s["fin_rate"]), str(len(s["pending"]))]
    for d, a in s["pending"]:
        t += [str(d), f2b(a)]
    t.append(str(len(s["holdings"])))
    for h in s["holdings"]:
        t += [str(ix.ids[h["id"]])] + ix.cfg_toks(h["id"]) + ser_pos(h["long"]) + ser_pos(h["short"])
    return t


def parse_reply(ix, rep):
    """reply of the driver -> dict comparable with a snapshot"""
    t = rep.split()
    it = iter(t)
    nx = lambda: next(it)
    out = {"total_cash": b2f(nx()), "frozen": b2f(nx()), "liab": b2f(nx()), "mgmt_fees": b2f(nx())}
    n = int(nx())
    out["pending"] = [(int(nx()), b2f(nx())) for _ in range(n)]
    n = int(nx())
    rev = {v: k for k, v in ix.ids.items()}
    hs = []
    for _ in range(n):
        oid = rev[int(nx())]
        pair = {}
        for side in ("long", "short"):
            p = {"qty": int(nx()), "old": int(nx()), "logical_old": int(nx()), "avg": b2f(nx()), "trade_cost": b2f(nx()), "txn_cost": b2f(nx()), "last": b2f(nx()),
                 "non_closable": int(nx())}
            dd, da = nx(), nx()
            p["div"] = None if dd == "0" else (int(dd), b2f(da))
            pair[side] = p
        hs.append({"id": oid, "long": pair["long"], "short": pair["short"]})
    out["holdings"] = hs
    assert nx() == "|"
    out["obs"] = {k: b2f(nx()) for k in ("cash", "margin", "market_value", "total_value", "position_equity", "transaction_cost", "trading_pnl")}
    return out


def feq(a, b, stats=None):
    if a == b or (a != a and b != b):
        if stats is not None:
            stats["bit_equal"] += 1
        return True
    ok = abs(a - b) <= max(1e-9, REL * max(abs(a), abs(b)))
    if stats is not None:
        stats["tolerance_equal" if ok else "different"] += 1
    return ok


def diff_state(model, impl, stats=None, fields=None):
    """list of (path, model value, impl value) where the two states differ"""
    out = []
    for k in ("total_cash", "frozen", "liab", "mgmt_fees"):
        if not feq(model[k], impl[k], stats):
            out.append((k, model[k], impl[k]))
    if [d for d, _ in model["pending"]] != [d for d, _ in impl["pending"]] or not all(feq(a[1], b[1], stats) for a, b in zip(model["pending"], impl["pending"])):
        out.append(("pending", model["pending"], impl["pending"]))
    if [h["id"] for h in model["holdings"]] != [h["id"] for h in impl["holdings"]]:
        out.append(("holdings", [h["id"] for h in model["holdings"]], [h["id"] for h in impl["holdings"]]))
        return out
    for hm, hi in zip(model["holdings"], impl["holdings"]):
        for side in ("long", "short"):
            pm, pi = hm[side], hi[side]
            for k in ("qty", "old", "logical_old", "non_closable"):
                if int(pm[k]) != int(pi[k]):
                    out.append(("%s.%s.%s" % (hm["id"], side, k), pm[k], pi[k]))
            for k in ("avg", "trade_cost", "txn_cost", "last"):
                if not feq(pm[k], pi[k], stats):
                    out.append(("%s.%s.%s" % (hm["id"], side, k), pm[k], pi[k]))
            dm, di = pm["div"], pi["div"]
            if (dm is None) != (di is None) or (dm is not None and (dm[0] != di[0] or not feq(dm[1], di[1], stats))):
                out.append(("%s.%s.div" % (hm["id"], side), dm, di))
    if "obs" in impl:
        for k, v in model["obs"].items():
            if not feq(v, impl["obs"][k], stats):
                out.append(("obs." + k, v, impl["obs"][k]))
    return out


def expected_bt_rows(ix, pre, today8, nested_trades):
    """corporate-action inputs of a before_trading, from the scenario tables"""
    rows = []
    prev8 = ix.prev_day8(today8)
    for h in pre["holdings"]:
        oid = h["id"]
        if oid not in ix.stock:
            continue
        has_div, dps, pay = 0, 0.0, 0
        drows = [r for r in ix.S["div"].get(oid, []) if r[1] == prev8]
        if drows:
            has_div = 1
            v = 0
            for r in drows:
                v = v + np.float64(r[4]) / np.uint32(r[5])
            dps = float(v)
            pay = drows[0][3]
        has_split, ratio = 0, 0.0
        for ex, ra in ix.S["split"].get(oid, []):
            if ex == today8 * 1000000:
                has_split, ratio = 1, float(ra)
        fee = 0.0
        for t in nested_trades:
            if t["id"] == oid:
                fee = t["fee"]
        rows.append([str(ix.ids[oid]), str(has_div), f2b(dps), str(pay), str(has_split), f2b(ratio), f2b(fee)])
    return rows


def expected_st_rows(ix, pre, today8):
    rows = []
    nxt8 = ix.next_day8(today8)
    am = ix.cfgk.get("accounts_mod") or {}
    for h in pre["holdings"]:
        oid = h["id"]
        if oid in ix.stock:
            s = ix.stock[oid]
            dk = 0
            if s["delisted"] is not None and nxt8 >= B.d8(s["delisted"]):
                dk = 1 if am.get("cash_return_by_stock_delisted", True) else 2
            rows.append([str(ix.ids[oid]), str(dk), "0", f2b(0.0), "0"])
        else:
            f = ix.fut[oid]
            hs, sp = 0, 0.0
            if am.get("futures_settlement_price_type", "close") == "settlement":
                b = ix.bar(oid, today8)
                hs, sp = 1, (float(b[9]) if b is not None else float("nan"))
            ex = 1 if (f["expire"] is not None and nxt8 > B.d8(f["expire"])) else 0
            rows.append([str(ix.ids[oid]), "0", str(hs), f2b(sp), str(ex)])
    return rows


def build_requests(ix, ops):
    """-> list of (op record, driver line or None, kind)"""
    reqs = []
    nested = []
    frozen_reqs = []
    for op in ops:
        if op["nested"]:
            nested.append(op)
            continue
        mine_nested, nested = nested, []
        name, pre, post, a = op["op"], op["pre"], op["post"], op["args"]
        if op["raised"] and name != "deposit_withdraw":
            reqs.append((op, None, "raised"))
            continue
        if nan_in(pre) or nan_in(post):
            reqs.append((op, None, "nan"))
            continue
        if any(h["id"] not in ix.ids for h in pre["holdings"] + post["holdings"]):
            reqs.append((op, None, "unknown-instrument"))
            continue
        if any(h[sd][f] != int(h[sd][f]) for h in pre["holdings"] + post["holdings"] for sd in ("long", "short") for f in ("qty", "old", "logical_old")):
            # a share conversion with a non-integral result leaves a FRACTIONAL quantity (finding F31); the model's quantities are integers
            reqs.append((op, None, "fractional-quantity"))
            continue
        acct = ser_acct(ix, pre)
        line = None
        if name == "apply_trade":
            if a["skipped"]:
                reqs.append((op, None, "frame"))
                continue
            if a["effect"] not in ("OPEN", "CLOSE", "CLOSE_TODAY") or a["id"] not in ix.ids:
                reqs.append((op, None, "unsupported"))
                continue
            o = a["order"]
            line = ["ATRADE"] + acct + [str(ix.ids[a["id"]])] + ix.cfg_toks(a["id"]) + [f2b(a["create_last"] if a["create_last"] is not None else 0.0),
                   str(int(a["direction"] == "LONG")), f2b(a["price"]), str(int(a["qty"])), a["effect"], f2b(a["fee"]),
                   str(int(o is not None)), str(int(o["qty"])) if o else "0", f2b(o["init_frozen"]) if o else f2b(0.0)]
        elif name == "_on_order_pending_new":
            if a["frozen_price"] is None or a["frozen_price"] != a["frozen_price"]:
                reqs.append((op, None, "nan"))
                continue
            frozen_reqs.append((len(reqs), "AFROZEN " + " ".join(ix.cfg_toks(a["id"]) + [f2b(a["frozen_price"]), str(int(a["qty"])), str(int(a["effect"] == "OPEN")), f2b(a["order_cost"])])))
            line = ["APNEW"] + acct        # init appended after AFROZEN is answered
        elif name == "_on_order_unsolicited_update":
            line = ["AUNSOL"] + acct + [str(int(a["qty"])), str(int(a["filled"])), f2b(a["init_frozen"])]
        elif name == "_on_bar":
            toks = []
            for h in pre["holdings"]:
                b = ix.bar(h["id"], a["today"])
                toks += [str(ix.ids[h["id"]]), of2b(None if b is None else b[2])]
            line = ["ABAR"] + acct + [str(len(pre["holdings"]))] + toks
        elif name == "_on_before_trading":
            am = ix.cfgk.get("accounts_mod") or {}
            rows = expected_bt_rows(ix, pre, a["today"], [n["args"] for n in mine_nested if n["op"] == "apply_trade"])
            line = ["ABT"] + acct + [str(a["today"]), str(int(bool(am.get("dividend_reinvestment", False)))), str(len(rows))] + [x for r in rows for x in r]
        elif name == "_on_settlement":
            if any(h["id"] in ix.S["trf"] for h in pre["holdings"]):
                reqs.append((op, None, "conversion"))
                continue
            rows = expected_st_rows(ix, pre, a["today"])
            forced = (ix.cfgk.get("base_extra") or {}).get("forced_liquidation", True)
            line = ["AST"] + acct + [str(int(bool(forced))), str(len(rows))] + [x for r in rows for x in r]
        elif name == "deposit_withdraw":
            days = a["days"]
            line = ["ADEP"] + acct + [f2b(a["amount"]), str(int(days >= 1)), str(ix.next_day8(a["today"], days) if days >= 1 else 0)]
        elif name == "finance_repay":
            if pre["type"] != "STOCK":
                reqs.append((op, None, "frame"))
                continue
            line = ["AFIN"] + acct + [f2b(a["amount"])]
        reqs.append((op, line, "model"))
    return reqs, frozen_reqs


def run_sync(ctx, corrs, ix, ops, stats, want_ops=None):
    """corrs: dict op-name -> Corr.  Returns list of (op, differences) for mismatching ops."""
    reqs, frozen_reqs = build_requests(ix, ops)
    if not ctx.driver_ok:
        return []
    # first the init_frozen_cash of new orders
    if frozen_reqs:
        reps = vlib.ask_driver([l for _, l in frozen_reqs])
        for (i, _), rep in zip(frozen_reqs, reps):
            op, line, kind = reqs[i]
            reqs[i] = (op, line + [rep.strip()], kind)
            op["model_init_frozen"] = b2f(rep.strip())
    lines, idx = [], []
    for i, (op, line, kind) in enumerate(reqs):
        if kind == "model" and line is not None:
            lines.append(" ".join(line))
            idx.append(i)
        else:
            stats["sync_" + kind] += 1
    reps = vlib.ask_driver(lines) if lines else []
    bad = []
    for i, rep in zip(idx, reps):
        op = reqs[i][0]
        name = op["op"]
        corr = corrs.get(name)
        if rep.strip() == "RAISE":
            ok = op["raised"] is not None
            diffs = [] if ok else [("raise", "model raises ValueError", "implementation did not")]
        elif op["raised"]:
            ok, diffs = False, [("raise", "model accepts", "implementation raised %s" % op["raised"])]
        else:
            model = parse_reply(ix, rep)
            diffs = diff_state(model, op["post"], stats)
            if name == "_on_order_pending_new" and not feq(op.get("model_init_frozen", 0.0), op["post"]["frozen"] - op["pre"]["frozen"]) and not diffs:
                pass
            ok = not diffs
        stats["sync_ops"] += 1
        if corr is not None:
            corr.add(ok, {"op": name, "account": op["acct"], "when": str(op["when"][0]), "args": {k: v for k, v in op["args"].items() if k not in ("dt",)},
                          "differences": [(p, repr(m), repr(v)) for p, m, v in diffs[:6]]} if not ok else {"op": name, "account": op["acct"], "when": str(op["when"][0])})
        if not ok:
            bad.append((op, diffs))
    # frame ops: nothing may change
    for op, line, kind in reqs:
        if kind == "frame":
            d = diff_state(dict(op["pre"], obs=op["pre"]["obs"]), op["post"])
            if d and corrs.get(op["op"]) is not None:
                corrs[op["op"]].add(False, {"op": op["op"], "expected": "no change", "differences": [(p, repr(m), repr(v)) for p, m, v in d[:4]]})
    return bad


def chain_check(ops, stats):
    """between two recorded operations of an account nothing else may change its ledger (post_k == pre_{k+1} on the raw fields)"""
    last = {}
    breaks = []
    for op in ops:
        if op["nested"] or op["pre"] is None:
            continue
        t = op["acct"]
        if t in last:
            p, q = last[t]["post"], op["pre"]
            if not nan_in(p) and not nan_in(q):
                d = [x for x in diff_state(dict(p), dict(q, obs=p["obs"])) if not x[0].endswith(".last")]
                if d:
                    breaks.append((last[t], op, d))
        last[t] = op
        stats["chain_links"] += 1
    return breaks

#!/bin/bash
# like seed_table.sh, but on N private snapshots of /verif and /repo in parallel (the live directories are not touched);
# writes /verif/SEEDS.md.   usage: tools/seed_table_par.sh [workers=4] [seed ...]
# With a seed list only those rows are recomputed; the rows of the other seeds are taken from the existing SEEDS.md (their checks have only been strengthened since).
N=${1:-4}; shift
ROWS=/tmp/seedrows; rm -rf $ROWS; mkdir -p $ROWS
ALL=($(cd /verif/seeded && ls -d */ | tr -d /))
if [ $# -gt 0 ]; then SEEDS=("$@"); else SEEDS=("${ALL[@]}"); fi
worker() {
  W=$1; D=/tmp/vsnap_sw$W
  rm -rf $D; mkdir -p $D
  rsync -a --exclude .git /verif/ $D/verif/
  rsync -a /repo/ $D/repo/
  export VERIF_REPO=$D/repo
  cd $D/verif
  for ((i=W; i<${#SEEDS[@]}; i+=N)); do
    S=${SEEDS[$i]}; P=${S%%_*}; d=seeded/$S
    for VS in 1 0; do
      (cd $D/repo && git apply $D/verif/seeded/$S/patch.diff) || {
        if grep -q status_on_current_tree $d/meta.json; then
          SUM=$(python3 -c "import json;print(json.load(open('$d/meta.json')).get('summary','')[:200].replace('|','/').replace('\n',' '))")
          echo "| $S | $SUM | - | patch no longer applies: superseded by a later repair (see meta.json) |  |" > $ROWS/$S.row
        else echo "$S APPLY FAILED" > $ROWS/$S.row; fi
        continue 2; }
      VERIF_SEED=$VS ./check $P quick > $ROWS/$S.$VS.out 2>&1; echo "rc=$?" > $ROWS/$S.$VS.rc
      (cd $D/repo && git checkout -q -- .)
    done
    RC="$(cat $ROWS/$S.0.rc) (seed 0), $(cat $ROWS/$S.1.rc) (seed 1)"
    O=$ROWS/$S.0.out
    if grep -q "no-failing-input-found" $O && ! grep "^VIOLATION" $O | grep -qv "no-failing-input-found"; then HOW="proof/correspondence broken, no-failing-input-found"; elif grep -q "^VIOLATION" $O; then HOW="failing input (replay file)"; else HOW="NOT CAUGHT"; fi
    if [ "$HOW" = "NOT CAUGHT" ] && grep -q status_on_current_tree $d/meta.json; then HOW="not reported: neutralised by a later repair (see meta.json)"; fi
    FIRST=$(grep "failing input\|no longer checks" $O | head -1 | sed 's/|/\\|/g' | cut -c1-260)
    SUM=$(python3 -c "import json;print(json.load(open('$d/meta.json')).get('summary','')[:200].replace('|','/').replace('\n',' '))")
    echo "| $S | $SUM | $RC | $HOW | $FIRST |" > $ROWS/$S.row
    echo "$S $RC $HOW"
  done
  rm -rf $D
}
for ((w=0; w<N; w++)); do worker $w & done
wait
OUT=/verif/SEEDS.md
cp $OUT $OUT.prev 2>/dev/null
{
echo "# Seeded changes and which check catches them"
echo ""
echo "Each row: a change made by a fresh sub-agent that saw only the property text and a scratch worktree (64 tests pass with it, its own demo fails with it and passes without). Result of the property's quick check on $(date -u +%Y-%m-%d) with the patch applied to a private copy of /repo (tools/seed_table_par.sh; \`tools/run_seed.sh <seed> quick\` does the same on /repo itself and reverts)."
echo ""
echo "When the tool is given a seed list only those rows are recomputed and the others are kept from the previous table (the checks are only strengthened in between; a full table takes about 100 minutes with 10 workers). State on 2026-09-29: waves 1-9 from the full run of that day, the 40 rows of wave 10 (_m11, _m12) and every row that was a miss or a one-seed catch recomputed after the additions described in DESIGN.md I.6. Not reported by its own property's check: C07_m9 (C07's check has no stop/resume leg; C14's check reports it). C05_m1, C07_m3 and C20_m3 are superseded or neutralised by later repairs (their meta.json says which)."
echo ""
echo "| seed | change | exit code under VERIF_SEED 0 and 1 | how it is reported (seed 0) | first line of the report (seed 0) |"
echo "|---|---|---|---|---|"
for S in "${ALL[@]}"; do
  if [ -f $ROWS/$S.row ]; then cat $ROWS/$S.row; else grep "^| $S |" /verif/SEEDS.md.prev | head -1; fi
done
} > $OUT
rm -f $OUT.prev
echo WROTE $OUT

#!/bin/bash
# confirm and keep the two seeds of one property of a wave: wave_confirm.sh C03 i 9 10   (worktree /tmp/wt/C03i, seeds /tmp/seed/C03i/m1,m2 -> seeded/C03_m9, C03_m10)
P=$1; SUF=$2; A=$3; B=$4
bash /verif/tools/confirm_seed.sh ${P}${SUF} m1 ${P}_m$A
bash /verif/tools/confirm_seed.sh ${P}${SUF} m2 ${P}_m$B

#!/bin/bash
# run every kept seeded change against its property's quick check (applies the patch to /repo, runs, reverts) and write /verif/SEEDS.md
cd /verif
OUT=/verif/SEEDS.md
echo "# Seeded changes and which check catches them" > $OUT
echo "" >> $OUT
echo "Each row: a change made by a fresh sub-agent that saw only the property text and a scratch worktree (64 tests pass with it, its own demo fails with it and passes without). Result of \`tools/run_seed.sh <seed> quick\` on $(date -u +%Y-%m-%d) (patch applied to /repo, check run, patch reverted)." >> $OUT
echo "" >> $OUT
echo "| seed | change | exit code under VERIF_SEED 0 and 1 | how it is reported (seed 0) | first line of the report (seed 0) |" >> $OUT
echo "|---|---|---|---|---|" >> $OUT
for d in seeded/*/; do
  S=$(basename $d)
  VERIF_SEED=1 tools/run_seed.sh $S quick > /tmp/seedtab1_$S.out 2>&1
  RC1=$(grep -o "rc=[0-9]*" /tmp/seedtab1_$S.out | head -1)
  VERIF_SEED=0 tools/run_seed.sh $S quick > /tmp/seedtab_$S.out 2>&1
  RC=$(grep -o "rc=[0-9]*" /tmp/seedtab_$S.out | head -1)
  RC="$RC (seed 0), $RC1 (seed 1)"
  if grep -q "no-failing-input-found" /tmp/seedrun_$S.out && ! grep "^VIOLATION" /tmp/seedrun_$S.out | grep -qv "no-failing-input-found"; then HOW="proof/correspondence broken, no-failing-input-found"; elif grep -q "^VIOLATION" /tmp/seedrun_$S.out; then HOW="failing input (replay file)"; else HOW="NOT CAUGHT"; fi
  if [ "$HOW" = "NOT CAUGHT" ] && grep -q status_on_current_tree $d/meta.json; then HOW="not reported: neutralised by a later repair (see meta.json)"; fi
  FIRST=$(grep "failing input\|no longer checks" /tmp/seedrun_$S.out | head -1 | sed 's/|/\\|/g' | cut -c1-260)
  SUM=$(python3 -c "import json;print(json.load(open('$d/meta.json')).get('summary','')[:200].replace('|','/').replace('\n',' '))")
  echo "| $S | $SUM | $RC | $HOW | $FIRST |" >> $OUT
  echo "$S $RC $HOW"
done

#!/bin/bash
# run the given kept seeds against their property's quick check on private snapshots of /verif and /repo, in parallel
# usage: tools/seeds_par.sh <workers> <out dir> seed1 seed2 ...      (one VERIF_SEED: $VS, default 0)
N=$1; OUT=$2; shift 2
SEEDS=("$@"); VS=${VS:-0}
mkdir -p $OUT
worker() {
  W=$1; D=/tmp/vsnap_p$W
  rm -rf $D; mkdir -p $D
  rsync -a --exclude .git --exclude replays /verif/ $D/verif/
  rsync -a /repo/ $D/repo/
  export VERIF_REPO=$D/repo
  cd $D/verif
  for ((i=W; i<${#SEEDS[@]}; i+=N)); do
    S=${SEEDS[$i]}; P=${S%%_*}
    (cd $D/repo && git apply $D/verif/seeded/$S/patch.diff) || { echo "$S APPLY FAILED" > $OUT/$S.sum; continue; }
    VERIF_SEED=$VS ./check $P quick > $OUT/$S.out 2>&1; RC=$?
    (cd $D/repo && git checkout -q -- .)
    echo "$S rc=$RC $(grep -c '^VIOLATION' $OUT/$S.out) violation lines | $(grep 'failing input\|no longer checks' $OUT/$S.out | head -2 | cut -c1-260 | tr '\n' ' ')" > $OUT/$S.sum
  done
  rm -rf $D
}
for ((w=0; w<N; w++)); do worker $w & done
wait
cat $OUT/*.sum

#!/bin/bash
# run every claimed check on the current tree (quick by default) with a given seed; summary per check
TIER=${1:-quick}; SEED=${2:-0}
cd /verif
for P in $(python3 -c "import json;print(' '.join(c['property_id'] for c in json.load(open('MANIFEST.json'))['checks']))"); do
  VERIF_SEED=$SEED ./check $P $TIER > /tmp/runall_$P.out 2>&1; RC=$?
  echo "$P rc=$RC $(tail -1 /tmp/runall_$P.out | cut -c1-200)"
  grep "^VIOLATION\|INFRASTRUCTURE" /tmp/runall_$P.out | head -3
done

#!/bin/bash
# confirm a seeded change in its scratch worktree: tests pass with it, demo fails with it and passes without it
# usage: confirm_seed.sh C11 m1 [kept-name e.g. C11_m3]   (P may carry a wave suffix, e.g. C11b: worktree /tmp/wt/C11b, seeds /tmp/seed/C11b)
P=$1; M=$2; KEEP=${3:-${P}_$M}; WT=/tmp/wt/$P; SD=/tmp/seed/$P/$M
cd $WT || exit 2
git checkout -q -- . ; git status --short | grep -v '^??' | head -3
git apply $SD/patch.diff || { echo "APPLY FAILED"; exit 2; }
T=$(/venv/bin/python -m pytest -q -p no:cacheprovider --timeout=900 tests/api_tests 2>&1 | tail -1)
RQ_ROOT=$WT PYTHONPATH=$WT timeout 600 /venv/bin/python $SD/demo.py > /tmp/seed/$P/$M/demo_with.out 2>&1; RC1=$?
git checkout -q -- .
RQ_ROOT=$WT PYTHONPATH=$WT timeout 600 /venv/bin/python $SD/demo.py > /tmp/seed/$P/$M/demo_without.out 2>&1; RC0=$?
echo "$P/$M tests: $T | demo with change rc=$RC1 | demo clean rc=$RC0"
if [ "$RC1" = "1" ] && [ "$RC0" = "0" ] && echo "$T" | grep -q "64 passed"; then
  D=/verif/seeded/$KEEP; mkdir -p $D; cp $SD/patch.diff $SD/demo.py $D/
  /venv/bin/python - "$SD/meta.json" "$D/meta.json" "$T" <<'PY'
import json,sys
m=json.load(open(sys.argv[1])); m["confirmed"]={"tests_with_change":sys.argv[3],"demo_with_change_exit":1,"demo_clean_exit":0,"how":"tools/confirm_seed.sh in a scratch worktree of /repo"}
json.dump(m,open(sys.argv[2],"w"),indent=1,ensure_ascii=False)
PY
  echo "  kept -> $D"
else echo "  NOT CONFIRMED"; fi

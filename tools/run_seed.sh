#!/bin/bash
# apply a kept seeded change to /repo, run the property's check, undo.  usage: run_seed.sh C11_m1 [quick|thorough] [property override]
S=$1; TIER=${2:-quick}; P=${3:-${S%%_*}}
cd /repo && git apply /verif/seeded/$S/patch.diff || { echo APPLY FAILED; exit 2; }
cp /verif/evidence/$P.json /tmp/evidence_$P.bak 2>/dev/null
cd /verif && ./check $P $TIER > /tmp/seedrun_$S.out 2>&1; RC=$?   # VERIF_SEED is inherited from the environment
cd /repo && git checkout -q -- . 
cp /tmp/evidence_$P.bak /verif/evidence/$P.json 2>/dev/null   # evidence must come from the unchanged tree
echo "$S on $P: rc=$RC  $(grep -c '^VIOLATION' /tmp/seedrun_$S.out) violation lines; $(grep '^VIOLATION' /tmp/seedrun_$S.out | head -2 | cut -c1-160)"
grep "failing input\|no longer checks" /tmp/seedrun_$S.out | head -3 | cut -c1-300

#!/bin/bash
# run every check of a SNAPSHOT of /verif against a SNAPSHOT of /repo (so that work in the live directories does not disturb a long run)
# usage: tools/snapshot_run.sh <tier> <seed> [name] ["C10 C14 ..."]      output: /tmp/vsnap_<name>/out/<Cxx>.out and summary.txt
TIER=${1:-thorough}; SEED=${2:-0}; NAME=${3:-a}; ONLY=${4:-}
D=/tmp/vsnap_$NAME
rm -rf $D; mkdir -p $D/out
rsync -a --exclude .git /verif/ $D/verif/
rsync -a --exclude .git /repo/ $D/repo/
cd $D/verif
export VERIF_REPO=$D/repo
for P in ${ONLY:-$(python3 -c "import json;print(' '.join(c['property_id'] for c in json.load(open('MANIFEST.json'))['checks']))")}; do
  VERIF_SEED=$SEED ./check $P $TIER > $D/out/$P.out 2>&1; RC=$?
  echo "$P rc=$RC $(tail -1 $D/out/$P.out | cut -c1-200)" >> $D/out/summary.txt
done
echo DONE >> $D/out/summary.txt

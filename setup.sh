#!/bin/bash
# Offline setup after a fresh restore: regenerate tables from /repo, instantiate the Float copy of the model,
# build all Lean libraries (theorems) and the replay driver.
set -e
cd "$(dirname "$0")"
export PYTHONPATH="${VERIF_REPO:-/repo}:$(pwd)/harness"
/venv/bin/python harness/extract.py
/venv/bin/python harness/instantiate.py
cd lean
lake build drv
lake build RQ
echo "setup ok"
